#!/venv/bin/python
"""Regenerate MANIFEST.json from the check modules present in checks/ (run from /verif)."""
import importlib
import json
import os
import sys

sys.path.insert(0, os.path.dirname(os.path.dirname(os.path.abspath(__file__))))
props = [json.loads(l) for l in open("properties.jsonl")]
checks, na = [], []
for p in props:
    pid = p["id"]
    path = "checks/%s.py" % pid.lower()
    if not os.path.exists(path):
        na.append({"property_id": pid, "reason": "no check registered yet: the exhaustive-exploration check for this property is designed (DESIGN.md section 3) but not built in this round"})
        continue
    mod = importlib.import_module("checks.%s" % pid.lower())
    checks.append({
        "property_id": pid,
        "quick_cmd": "./check %s --tier quick" % pid,
        "thorough_cmd": "./check %s --tier thorough" % pid,
        "evidence_file": "/verif/evidence/%s.json" % pid,
        "replay_cmd_template": "./check %s --replay {path}" % pid,
        "engine": "vmc",
        "level_claimed": {"category": mod.LEVEL, "text": mod.LEVEL_TEXT, "design_ref": "DESIGN.md section 3, %s" % pid},
        "level_note": mod.LEVEL_NOTE,
        "technique": mod.TECHNIQUE,
    })
man = {
    "version": 1,
    "setup_cmd": "/venv/bin/python -W ignore -m vmc.selftest",
    "hooks": {
        "guard": "VECTORIZERS_VERIF",
        "enable": "no build step: the package is installed editable from /repo, so every check sees /repo's working tree. Workers are started with NUMBA_DISABLE_JIT=1 (interpreted), NUMBA_BOUNDSCHECK=1, default compiled mode, or - for the C04 sub-check a_accumulator_compiled only - VECTORIZERS_VERIF=1 VECTORIZERS_VERIF_COO_LIMIT=3, which makes vectorizers/coo_utils.py lower COO_QUICKSORT_LIMIT at import",
        "baseline_off_cmd": "cd /repo && env -u VECTORIZERS_VERIF /venv/bin/python -m pytest -ra -q -p no:cacheprovider --timeout=900 --continue-on-collection-errors",
        "source_commits": [l.split()[0] for l in __import__("subprocess").run(["git", "-C", "/repo", "log", "--format=%h %s"], capture_output=True, text=True).stdout.splitlines() if "verification hook" in l],
        "add_only": True,
    },
    "engines": [{"name": "vmc", "path": "/verif/vmc", "serves_properties": [c["property_id"] for c in checks],
                 "kind_free_text": "hand-written explicit-state / bounded-exhaustive explorer driving the real code (interpreted, bounds-checked and compiled numba modes) against independent reference models; controlled thread scheduler for the dask fan-out"}],
    "checks": checks,
    "not_applicable": na,
    "notes": "See DESIGN.md. Every check enumerates a stated finite space completely (no sampling); VERIF_SEED only sets PYTHONHASHSEED / random_state values. Known findings: known_findings.json.",
}
json.dump(man, open("MANIFEST.json", "w"), indent=1)
print("checks:", [c["property_id"] for c in checks], "not_applicable:", [n["property_id"] for n in na])
