#!/usr/bin/env python3
"""tools/try_seed.py <seed-dir> <Cxx> [<Cyy> ...] [--tier quick]
Applies <seed-dir>/patch.diff to /repo, runs the given checks, reverts /repo (git checkout -- .), and prints
for each check: exit code, VIOLATION signatures, KNOWN-FINDING count.  Never leaves /repo modified."""
import json, os, subprocess, sys, time

def sh(cmd, **kw):
    return subprocess.run(cmd, shell=True, capture_output=True, text=True, **kw)

def main():
    args = [a for a in sys.argv[1:] if not a.startswith("--")]
    tier = "quick"
    if "--tier" in sys.argv:
        tier = sys.argv[sys.argv.index("--tier") + 1]
        args = [a for a in args if a != tier]
    seed, props = os.path.abspath(args[0]), args[1:]
    patch = os.path.join(seed, "patch.diff")
    st = sh("git -C /repo status --porcelain").stdout.strip()
    if st:
        print("REFUSING: /repo is not clean:\n" + st)
        return 2
    r = sh("git -C /repo apply --check %s && git -C /repo apply %s" % (patch, patch))
    if r.returncode != 0:
        print("patch does not apply:", r.stderr)
        return 2
    results = {}
    try:
        for p in props:
            t0 = time.time()
            r = sh("cd /verif && ./check %s --tier %s --no-evidence" % (p, tier))
            sigs = [l.strip() for l in r.stdout.splitlines() if l.strip().startswith("signature=")]
            results[p] = {"exit": r.returncode, "violations": [s.split(" count=")[0].replace("signature=", "") for s in sigs],
                          "known": sum(1 for l in r.stdout.splitlines() if l.startswith("KNOWN-FINDING")), "wall_s": round(time.time() - t0, 1)}
            print(p, json.dumps(results[p]))
            if r.returncode not in (0, 1):
                print(r.stdout[-1500:], r.stderr[-1500:])
    finally:
        sh("git -C /repo checkout -- .")
        st = sh("git -C /repo status --porcelain").stdout.strip()
        if st:
            print("WARNING: /repo still dirty after revert:\n" + st)
    with open(os.path.join(seed, "check_results.json"), "w") as f:
        json.dump({"tier": tier, "results": results}, f, indent=1)
    return 0

if __name__ == "__main__":
    sys.exit(main())
