#!/usr/bin/env python3
"""Regenerate the table of section 7a of DESIGN.md from seeded/s*/meta.json (between the table header and the first blank line after it)."""
import glob, json, os, re
rows = []
missed = neigh = 0
for d in sorted(glob.glob("seeded/s[0-9]*")):
    mp = os.path.join(d, "meta.json")
    if not os.path.exists(mp):
        continue
    m = json.load(open(mp))
    prop = m["breaks_property"]
    ini, now = m.get("detected_initially_by", []), m.get("detected_after_strengthening_by", [])
    if not ini:
        missed += 1
    elif not any(x.startswith(prop) for x in ini):
        neigh += 1
    esc = lambda s: str(s).replace("|", "/").replace("\n", " ")
    rows.append("| %s | %s | %s | %s | %s | %s |" % (os.path.basename(d), prop, esc(m.get("needs_to_manifest", "")), esc(", ".join(ini) or "**missed**"),
                                                   esc(", ".join(now)), esc(m.get("strengthening") or "-")))
s = open("DESIGN.md").read()
head = "| seed | property | needs, to manifest | detected initially by | detected now by | strengthening |\n|---|---|---|---|---|---|\n"
i = s.index(head) + len(head)
j = s.index("\n\n", i)
s = s[:i] + "\n".join(rows) + s[j:]
open("DESIGN.md", "w").write(s)
print("seeds=%d missed_initially=%d neighbour_only=%d" % (len(rows), missed, neigh))
