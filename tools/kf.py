#!/usr/bin/env python3
"""tools/kf.py fixed <prop> <commit> <what>   |   tools/kf.py known <prop> <signature> <what>"""
import json, sys
k = json.load(open("known_findings.json"))
if sys.argv[1] == "fixed":
    k["fixed"].append({"property": sys.argv[2], "commit": sys.argv[3], "what": "fixed: property=%s %s %s" % (sys.argv[2], sys.argv[3], sys.argv[4])})
else:
    k["known"].append({"property": sys.argv[2], "signature": sys.argv[3], "what": sys.argv[4]})
json.dump(k, open("known_findings.json", "w"), indent=1)
