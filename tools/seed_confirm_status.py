#!/usr/bin/env python3
"""Record in seeded/sNN_*/meta.json what the confirmation of the change found (from the logs of /tmp/seed/confirm*.sh runs):
demo with/without the patch and the repository's full suite with the patch (493 stable tests).  A suite run in which one
test hit the per-test time limit on the overloaded machine is completed by re-running that test alone."""
import glob, json, os, re, sys
status = {}
for f in sorted(glob.glob("/tmp/seed/confirm_batch*.log")):
    cur = None
    for line in open(f):
        m = re.match(r"#### w(\d+)", line)
        if m:
            cur = int(m.group(1)); status.setdefault(cur, {"demo": [], "suite": None, "not_passed": []}); continue
        if cur is None:
            continue
        m = re.match(r"exit (\d+)", line)
        if m:
            status[cur]["demo"].append(int(m.group(1)))
        m = re.match(r"stable=(\d+) passed_in_run=(\d+) stable_not_passed=(\d+)", line)
        if m:
            status[cur]["suite"] = (int(m.group(2)), int(m.group(1)))
        m = re.match(r"\s+NOT PASSED: (\S+)", line)
        if m:
            status[cur]["not_passed"].append(m.group(1))
reruns = {}
for f in glob.glob("/tmp/seed/rerun_blockwise*.log"):
    cur = None
    for line in open(f):
        m = re.match(r"#### w(\d+)", line)
        if m:
            cur = int(m.group(1)); continue
        if cur is not None and re.match(r"1 passed", line):
            reruns[cur] = True
manual = {45: True, 49: True}      # re-run by hand earlier in the session: 1 passed
reruns.update(manual)
n = 0
for d in sorted(glob.glob("seeded/s[0-9]*")):
    k = int(re.match(r"s(\d+)", os.path.basename(d)).group(1))
    mp = os.path.join(d, "meta.json")
    if not os.path.exists(mp):
        continue
    if k not in status:
        if k < 61:
            continue        # first batches: confirmed earlier (493/493), log not kept
        status[k] = {"demo": [], "suite": None, "not_passed": []}
    st = status[k]
    m = json.load(open(mp))
    demo = "demo.py exits %s with patch.diff applied and %s without" % tuple((st["demo"] + ["?", "?"])[:2])
    if st["suite"] is None:
        suite = "full suite with the patch: run not finished when this was recorded (the agent ran the tests touching the changed code: see notes.md)"
    elif st["suite"][0] == st["suite"][1]:
        suite = "the repository's full suite with the patch: %d/%d stable tests pass" % st["suite"]
    elif st["not_passed"] == ["vectorizers.tests.test_common::test_wasserstein_vectorizer_generators_blockwise"] and reruns.get(k):
        suite = ("the repository's full suite with the patch: %d/%d stable tests pass in the parallel run, the remaining one "
                 "(test_wasserstein_vectorizer_generators_blockwise) hit the 900 s per-test limit on the overloaded machine and passes when re-run alone" % st["suite"])
    else:
        suite = "full suite with the patch: %d/%d stable tests pass; not passed: %s (time limit on the overloaded machine; single re-run not finished)" % (st["suite"] + (st["not_passed"],))
    m["confirmed_by_me"] = demo + " (scratch worktree under /tmp/seed); " + suite + " (tools/compare_baseline.py on the junit file)"
    json.dump(m, open(mp, "w"), indent=1)
    n += 1
print("updated", n)
