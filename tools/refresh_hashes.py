#!/usr/bin/env python3
"""After history rewriting in /repo: map the commit hashes in known_findings.json 'fixed' entries to the current ones by subject."""
import json, subprocess
def git(*a): return subprocess.run(["git", "-C", "/repo"] + list(a), capture_output=True, text=True).stdout
cur = {}
for line in git("log", "--format=%h\t%s").splitlines():
    h, s = line.split("\t", 1)
    cur[s] = h
k = json.load(open("known_findings.json"))
out = []
for f in k["fixed"]:
    subj = git("show", "-s", "--format=%s", f["commit"]).strip()
    if subj in cur:
        new = cur[subj]
        if new != f["commit"]:
            f["what"] = f["what"].replace(f["commit"], new)
            f["commit"] = new
        out.append(f)
    else:
        print("DROPPED (no such commit any more):", f["commit"], subj)
k["fixed"] = out
json.dump(k, open("known_findings.json", "w"), indent=1)
print("fixed entries:", len(out))
