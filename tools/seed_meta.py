#!/usr/bin/env python3
"""tools/seed_meta.py <seed-dir> <property> <needs> <caught-by-before> <caught-by-after> [<what strengthened>]"""
import json, os, sys
d = sys.argv[1]
m = {"breaks_property": sys.argv[2], "needs_to_manifest": sys.argv[3],
     "origin": "independent sub-agent given only the property text and a scratch worktree of /repo",
     "confirmed_by_me": "demo.py exits 1 with patch.diff applied and 0 without (scratch worktree under /tmp/seed); the repository's full suite with the patch: 493/493 stable tests pass (tools/compare_baseline.py on the junit file)",
     "checks_run": "tools/try_seed.py (git -C /repo apply; ./check <id> --tier quick; git -C /repo checkout -- .)",
     "detected_initially_by": sys.argv[4].split(",") if sys.argv[4] else [],
     "detected_after_strengthening_by": sys.argv[5].split(",") if sys.argv[5] else [],
     "strengthening": sys.argv[6] if len(sys.argv) > 6 else ""}
if os.path.exists(os.path.join(d, "check_results.json")):
    m["last_check_results"] = json.load(open(os.path.join(d, "check_results.json")))
json.dump(m, open(os.path.join(d, "meta.json"), "w"), indent=1)
