#!/usr/bin/env python3
"""compare a junit xml with BASELINE.json stable_pass: every stable test must have passed."""
import json, sys
import xml.etree.ElementTree as ET
stable = set(json.load(open("/root/.vp/BASELINE.json"))["stable_pass"])
t = ET.parse(sys.argv[1])
passed = set()
for tc in t.iter("testcase"):
    name = "%s::%s" % (tc.get("classname"), tc.get("name"))
    if not any(c.tag in ("failure", "error", "skipped") for c in tc):
        passed.add(name)
missing = sorted(stable - passed)
print("stable=%d passed_in_run=%d stable_not_passed=%d" % (len(stable), len(passed), len(missing)))
for m in missing[:20]:
    print("  NOT PASSED:", m)
sys.exit(1 if missing else 0)
