#!/usr/bin/env python3
"""Regenerate DESIGN.md section '3b. As-built sub-checks' from the evidence files (quick tier)."""
import json, glob, re
rows = []
for f in sorted(glob.glob('/verif/evidence/C*.json')):
    e = json.load(open(f))
    for s in e['coverage']['sub_checks']:
        rows.append((e['property_id'], s['sub'], s['mode'], s['executed'], s['distinct_nontrivial'], s.get('states', 0), s.get('transitions', 0), s['space'].replace('|', '/')))
txt = "## 3b. As-built sub-checks (generated from the evidence files of the last quick run by tools/gen_asbuilt.py)\n\n"
txt += "Modes: I interpreted (NUMBA_DISABLE_JIT=1), B bounds-checked, N normal compiled, H compiled with the threshold hook.\n\n"
txt += "| prop | sub-check | mode | cases executed | non-trivial | states | transitions | enumerated space |\n|---|---|---|---|---|---|---|---|\n"
for r in rows:
    txt += "| %s | %s | %s | %d | %d | %s | %s | %s |\n" % (r[0], r[1], r[2], r[3], r[4], r[5] or "-", r[6] or "-", r[7][:400])
d = open('/verif/DESIGN.md').read()
if "## 3b. As-built sub-checks" in d:
    a = d.index("## 3b. As-built sub-checks")
    b = d.index("### 3a. Planned detection demonstrations") if d.index("### 3a. Planned detection demonstrations") > a else d.index("---------------------------------------------------------------------------------------------------", a)
    d = d[:a] + txt + "\n" + d[b:]
else:
    m = "### 3a. Planned detection demonstrations"
    d = d.replace(m, txt + "\n" + m, 1)
open('/verif/DESIGN.md', 'w').write(d)
print(len(rows), "sub-checks")
