"""C19 - sliding windows contain exactly the documented in-range elements."""
from __future__ import annotations

import itertools
import math

import numpy as np

from vmc.core import Sub, res, viol

PROPERTY = "C19"
LEVEL_TEXT = ("the complete product of sequence lengths x widths x strides x paddings x every form of window_sample (None, integer stride, all "
              "(start, stride) pairs, all non-empty index subsets, a full-length permutation) x built-in kernels x {1-d, 2-variate} is run through "
              "the real transformer; sequence values are distinct powers of two so every output value identifies its sources; oracle = "
              "numpy slicing + the documented sample semantics")
LEVEL_NOTE = "oracle written with plain numpy slicing in the check; interpreted mode for the full product, compiled mode for a sub-product (each fit compiles a fresh kernel closure)"
TECHNIQUE = "bounded exhaustive configuration/input enumeration of the real code vs reference model (explicit-state explorer)"
LEVEL = "exploration"
RULE = "complete product; non-trivial = at least two windows and a sample or kernel that is not the identity"
ASSUMPTIONS = ["sequences at least as long as the window (after padding), as the statement requires"]


def sample_forms(width):
    out = [("none", None)]
    for n in (1, 2, 3):
        out.append(("int", n))
    for s in range(width):
        for t in (1, 2, 3):
            out.append(("pair", [s, t]))
    for r in range(1, width + 1):
        for sub in itertools.combinations(range(width), r):
            if r == width:
                continue
            out.append(("idx", list(sub)))
    if width >= 2:
        out.append(("idx", [width - 1, 0]))                    # unsorted index list
        # full-length index lists: every permutation of the window (width <= 4), a few for wider windows,
        # and lists with repeated positions
        if width <= 4:
            for p in itertools.permutations(range(width)):
                if list(p) != list(range(width)):
                    out.append(("idx", list(p)))
        else:
            out.append(("idx", list(range(width))[::-1]))
            out.append(("idx", [0] + list(range(width - 2, 0, -1)) + [width - 1]))
            out.append(("idx", list(range(1, width)) + [0]))
        out.append(("idx", [0] * (width // 2) + [width - 1] * (width - width // 2)))
    return out


def expected_positions(kind, val, width):
    if kind == "none":
        return list(range(width))
    if kind == "int":
        return list(range(0, width, val))
    if kind == "pair":
        return list(range(val[0], width, val[1]))
    return list(val)


KERNELS = ["none", "average", "diff11", "diff12", "diff21", "weight", "gauss"]


def kernel_spec(name, m):
    """(kernels argument, reference matrix of shape (k, m)) for a sampled window of m entries."""
    if name == "none":
        return None, np.eye(m)
    if name == "average":
        return ["average"], np.full((1, m), 1.0 / m)
    if name.startswith("diff"):
        step, stride = int(name[4]), int(name[5])
        start = 0
        idx = [i for i in range(0, m) if start + i * stride + step < m and start + i * stride < m]
        rows = []
        i = 0
        while start + i * stride + step < m:
            r = np.zeros(m)
            r[start + i * stride] = -1
            r[start + i * stride + step] = 1
            rows.append(r)
            i += 1
        return [("differences", start, step, stride)], (np.array(rows) if rows else np.zeros((0, m)))
    if name == "weight":
        w = np.arange(1, m + 1, dtype=np.float64)
        return [("weight", w)], np.diag(w)
    if name == "gauss":
        sigma = 1.5
        xs = np.linspace(-m / 2, m / 2, m)
        w = 1.0 / (sigma * 2 * math.pi) * np.exp(-((xs / sigma) ** 2) / 2.0)
        return [("gaussian_weight", sigma)], np.diag(w)
    raise ValueError(name)


def make_seq(L, variate):
    if variate == 1:
        return np.array([2.0 ** i for i in range(L)])
    return np.array([[2.0 ** i, 2.0 ** (i + 16)] for i in range(L)]).reshape(L, 2)


def run_case(case):
    from vectorizers.transformers import SlidingWindowTransformer
    L, width, stride, pw, pv = case["L"], case["width"], case["stride"], case["pad_width"], case["pad_value"]
    skind, sval = case["sample"]
    variate = case["variate"]
    pos = expected_positions(skind, sval, width)
    m = len(pos)
    seq = make_seq(L, variate)
    extra = make_seq(L + 1, variate)[1:]      # a second sequence of another length in the same call
    if m == 0:
        return res(rej=True, out="empty-sample")
    kernels, M = kernel_spec(case["kernel"], m)
    if M.shape[0] == 0:
        return res(rej=True, out="empty-kernel")
    wsample = sval if skind != "idx" else np.array(sval)
    v = []
    try:
        tr = SlidingWindowTransformer(window_width=width, window_stride=stride, window_sample=wsample,
                                      kernels=kernels, pad_width=pw, pad_value=pv)
        out = tr.fit_transform([seq, extra])
    except Exception as e:
        return res([viol("exception:%s:sample-%s" % (type(e).__name__, skind), "raised %r" % (e,))], out="exc")
    nwin_total = 0
    for s, got in zip((seq, extra), out):
        if pw > 0:
            pad = np.full((pw,) + s.shape[1:], float(pv))
            s = np.concatenate([pad, s, pad])
        n = s.shape[0]
        nwin = max(0, math.ceil((n - width + 1) / stride))
        nwin_total += nwin
        exp = []
        for i in range(nwin):
            win = s[i * stride: i * stride + width]
            exp.append((M @ win[pos]).flatten())
        exp = np.array(exp).reshape(nwin, -1) if nwin else np.zeros((0, M.shape[0] * variate))
        got = np.asarray(got)
        if got.shape != exp.shape:
            v.append(viol("shape:sample-%s:kernel-%s" % (skind, "diff" if case["kernel"].startswith("diff") else case["kernel"]),
                          "output shape %s, expected %s (%d windows of %d values)" % (got.shape, exp.shape, nwin, exp.shape[1] if exp.ndim == 2 else -1),
                          observed=got.tolist(), expected=exp.tolist()))
        elif not np.allclose(got, exp, rtol=1e-12, atol=0):
            full = skind == "idx" and len(sval) >= width
            v.append(viol("values:sample-%s%s" % (skind, "-full-length" if full else ""),
                          "window contents differ", observed=got.tolist(), expected=exp.tolist()))
    nontrivial = nwin_total >= 2 and (skind != "none" or case["kernel"] != "none")
    return res(v, nt=repr(case) if nontrivial else None, out="%s/%s" % (skind, case["kernel"]))


def _cases(tier, compiled=False):
    Ls = range(1, 9) if tier == "quick" else range(1, 14)
    widths = range(1, 5) if tier == "quick" else range(1, 7)
    pads = [(0, 0), (1, 0), (2, -1)] if tier == "quick" else [(0, 0), (1, 0), (1, -1), (2, 0), (2, -1)]
    if compiled:
        Ls, widths, pads = (5,), (3,), [(1, -1)]
    for width in widths:
        for skind, sval in sample_forms(width):
            m = len(expected_positions(skind, sval, width))
            for kernel in KERNELS:
                if compiled and (kernel not in ("none", "diff11") or (skind == "idx" and len(sval) == 2) or (skind == "pair" and sval[1] == 3)):
                    continue
                for L in Ls:
                    for pw, pv in pads:
                        if L + 2 * pw < width:
                            continue
                        for stride in (1, 2, 3, 4) if not compiled else (1, 2):
                            for variate in (1, 2):
                                if compiled and variate == 2 and skind != "none":
                                    continue
                                yield {"L": L, "width": width, "stride": stride, "pad_width": pw, "pad_value": pv,
                                       "sample": [skind, sval], "kernel": kernel, "variate": variate}


def run_diff(case):
    from vectorizers.transformers import SequentialDifferenceTransformer
    L, stride = case["L"], case["stride"]
    seqs = [np.array([2.0 ** i for i in range(L)]), np.array([3.0 ** i for i in range(L + 2)])]
    try:
        out = SequentialDifferenceTransformer(stride=stride).fit_transform(seqs)
    except Exception as e:
        return res([viol("exception:%s" % type(e).__name__, "raised %r" % (e,))])
    v = []
    for s, got in zip(seqs, out):
        exp = np.array([s[i + stride] - s[i] for i in range(len(s) - stride)]).reshape(-1, 1)
        got = np.asarray(got)
        if got.shape != exp.shape or not np.array_equal(got, exp):
            v.append(viol("differences:stride%s" % (">=2" if stride >= 2 else "=1"), "x[i+stride]-x[i] expected", observed=got.tolist(), expected=exp.tolist()))
    return res(v, nt=(L, stride), out="s%d" % stride)


def _diff_cases(tier):
    for stride in range(1, 5 if tier == "quick" else 7):
        for L in range(stride + 1, 12):
            yield {"L": L, "stride": stride}


def subchecks(tier, seed):
    g1 = lambda: _cases(tier)
    g2 = lambda: _cases(tier, compiled=True)
    g3 = lambda: _diff_cases(tier)
    return [
        Sub("windows_I", "I", g1, run_case, total=sum(1 for _ in g1()),
            describe="L x width x stride 1..4 x paddings x all window_sample forms x 7 kernels x {1-d, 2-variate}",
            nontrivial_rule=">= 2 windows and a non-identity sample or kernel"),
        Sub("windows_N", "N", g2, run_case, total=sum(1 for _ in g2()),
            describe="compiled-mode sub-product (L 5,6; width 1,3; kernels none/differences)", nontrivial_rule="as above"),
        Sub("sequential_difference_I", "I", g3, run_diff, total=sum(1 for _ in g3()),
            describe="SequentialDifferenceTransformer stride 1..4(6) x lengths stride+1..11", nontrivial_rule="every case"),
        Sub("sequential_difference_N", "N", g3, run_diff, total=sum(1 for _ in g3()),
            describe="same, compiled", nontrivial_rule="every case"),
    ]
