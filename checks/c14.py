"""C14 - masking keeps positions; nullifying the mask removes its contribution."""
from __future__ import annotations

import itertools
import re

from vmc.core import Sub, res, viol
from vmc.inputs import sigma
from vmc.ref import cooc as R
from checks.c03 import build_estimator, make_corpus, est_cells, n_tokens, _multiset_docs

PROPERTY = "C14"
LEVEL_TEXT = ("for complete products of small corpora x pruning settings that remove a token x mask settings x window settings, the real "
              "estimators' output is compared with the reference applied to sequences transformed by the stated rule (delete vs "
              "replace in place by one extra last index); with nullify_mask the mask row/columns must be zero and, for un-normalised "
              "settings, all other cells equal the masked computation with the mask's contributions removed")
LEVEL_NOTE = "reference vmc/ref/cooc.py; kept-vocabulary computed independently in the check from exact integer counts; interpreted mode + compiled replay"
TECHNIQUE = "bounded exhaustive input/configuration enumeration of the real code vs reference model (explicit-state explorer)"
LEVEL = "exploration"
RULE = "complete products; a case is non-trivial when the pruning setting removed at least one token occurrence"
ASSUMPTIONS = ["normalised settings with nullify_mask: only the zero row/columns and the shape are asserted (the statement does not fix the order of removal and normalisation)"]

PRUNINGS = [
    {"min_occurrences": 2},
    {"excluded_tokens": ["b"]},
    {"excluded_token_regex": "[bc]"},
    # a supplied vocabulary that leaves tokens of the corpus out; the same dictionary OBJECT is used for an earlier fit
    # with another mask string first (case["prior"]): every fit must see the vocabulary as supplied
    {"token_dictionary": ["a", "c"]},
]
MASKS = [(None, False), ("M", False), ("M", True)]
CFGS = [
    dict(radii=[1], kernel="flat", orient="after", normwin=False),
    dict(radii=[2], kernel="flat", orient="directional", normwin=False),
    dict(radii=[2], kernel="harmonic", orient="before", normwin=False),
    dict(radii=[2], kernel="geometric", orient="directional", normwin=True),
    dict(radii=[2], kernel="harmonic", orient="after", normwin=False, kargs={"normalize": True}),
    dict(radii=[3], kernel="harmonic", orient="directional", normwin=False, kargs={"offset": 1}),
    dict(radii=[2], kernel="flat", orient="directional", normwin=False, wfun="variable"),
    dict(radii=[3], kernel="harmonic", orient="after", normwin=False, wfun="variable", wargs={"power": 0.5}),
    # un-normalised geometric kernel: for the timed vectorizer its weights depend on the fitted time scale (mean gap between
    # consecutive events, mask events included), so every cell is asserted under nullify_mask as well
    dict(radii=[2], kernel="geometric", orient="after", normwin=False),
]


def flat_tokens(kind, corpus):
    if kind == "multiset":
        return [t for d in corpus for m in d for t in m]
    if kind == "timed":
        return [t for d in corpus for (t, _) in d]
    return [t for d in corpus for t in d]


def kept_set(tokens, pruning):
    toks = set(tokens)
    if "min_occurrences" in pruning:
        toks = {t for t in toks if tokens.count(t) >= pruning["min_occurrences"]}
    if "excluded_tokens" in pruning:
        toks -= set(pruning["excluded_tokens"])
    if "excluded_token_regex" in pruning:
        toks = {t for t in toks if not re.fullmatch(pruning["excluded_token_regex"], t)}
    if "token_dictionary" in pruning:
        toks = set(pruning["token_dictionary"])     # the vocabulary is the supplied one, whether or not a token occurs
    return toks


def run_case(case):
    kind, cfg, docs, pruning = case["kind"], case["cfg"], case["docs"], case["pruning"]
    mask, nullify = case["mask"], case["nullify"]
    corpus = make_corpus(kind, docs, case.get("times"))
    toks = flat_tokens(kind, corpus)
    kept = kept_set(toks, pruning)
    removed = len([t for t in toks if t not in kept])
    c2 = dict(cfg)
    c2.update({k: (set(v) if k == "excluded_tokens" else v) for k, v in pruning.items()})
    shared = None
    if "token_dictionary" in pruning:
        shared = {t: i for i, t in enumerate(pruning["token_dictionary"])}
        c2["token_dictionary"] = shared
        if case.get("prior") and toks:
            try:
                build_estimator(kind, dict(c2, mask_string="Q", nullify_mask=False)).fit(corpus)
            except Exception:
                pass
    if mask is not None:
        c2["mask_string"] = mask
        c2["nullify_mask"] = nullify
    wins = R.expand_windows(cfg["radii"], cfg["orient"], cfg["kernel"], cfg.get("kargs"), cfg.get("mix"),
                            cfg.get("wfun", "fixed"), cfg.get("wargs"))
    est = build_estimator(kind, c2)
    if not toks:
        return res(rej=True, out="no-tokens")
    if cfg.get("wfun") == "variable" and not (kept & set(toks)):
        return res(rej=True, out="variable-window-radii-undefined:no-kept-token")
    if kind == "ngram":
        seqs0 = [R.apply_vocabulary(list(d), kept, mask) for d in corpus]
        if not any(len(s) >= 2 for s in seqs0):
            return res(rej=True, out="no-ngrams")
    try:
        mat = est.fit_transform(corpus)
    except ValueError as e:
        if (mask is None and not kept) or not toks:
            return res(rej=True, out="rejected-empty-vocabulary")
        if kind == "ngram":
            return res(rej=True, out="rejected-empty-ngrams")
        return res([viol("exception:ValueError", "fit_transform raised %r" % (e,))], out="exc")
    except Exception as e:
        return res([viol("exception:%s:%s" % (type(e).__name__, kind), "fit_transform raised %r" % (e,))], out="exc")
    v = []
    extra = {"ngram_size": 2} if kind == "ngram" else {}
    if kind == "ngram" and "min_occurrences" in pruning:
        # second-stage pruning: the same occurrence bound applies to the n-grams of the processed sequences
        seqs = [R.apply_vocabulary(list(d), kept, mask) for d in corpus]
        grams = [tuple(s[i:i + 2]) for s in seqs for i in range(len(s) - 1)]
        extra["kept_ngrams"] = {g for g in set(grams) if grams.count(g) >= pruning["min_occurrences"]}
        if not grams:
            return res(rej=True, out="no-ngrams")
    try:
        R.token_cooccurrence(corpus, wins, cfg["normwin"], kept=kept, mask=mask, nullify=nullify,
                             timed=True) if kind == "timed" else None
    except ZeroDivisionError:
        return res(rej=True, out="ref-undefined")
    if kind == "multiset":
        exp, rows, labels, _ = R.multiset_cooccurrence(corpus, wins, cfg["normwin"], kept=kept, mask=mask, nullify=nullify)
    else:
        exp, rows, labels, amb = R.token_cooccurrence(corpus, wins, cfg["normwin"], kept=kept, mask=mask, nullify=nullify,
                                                      timed=(kind == "timed"), **extra)
        if amb:
            return res(amb=True, out="ambiguous-radius")
    # vocabulary: kept tokens in sorted order, mask as exactly one extra entry with the last index
    tl = est.token_label_dictionary_
    want = {t: i for i, t in enumerate(labels)}
    if dict(tl) != want:
        v.append(viol("vocabulary:%s" % ("mask" if mask else "nomask"), "token_label_dictionary_ %r, expected %r" % (dict(tl), want)))
        return res(v, out="vocab")
    if shared is not None and shared != {t: i for i, t in enumerate(pruning["token_dictionary"])}:
        v.append(viol("supplied-dictionary-modified:%s" % kind, "the caller's token_dictionary is now %r" % (shared,)))
    got = est_cells(est, mat, kind)
    normalised = cfg["normwin"] or (cfg.get("kargs") or {}).get("normalize", False)
    if mat.shape != (len(rows), len(labels) * len(wins)):
        v.append(viol("shape", "shape %s expected %s" % (mat.shape, (len(rows), len(labels) * len(wins)))))
    if nullify:
        badr = [k for k in got if k[0] == mask]
        badc = [k for k in got if k[1].split("_", 2)[2] == mask]
        if badr:
            v.append(viol("nullify-row-not-zero:%s" % kind, "mask row cells are non-zero: %s" % badr[:4], observed=sorted(got.items(), key=repr)))
        if badc:
            v.append(viol("nullify-column-not-zero:%s" % kind, "mask column cells are non-zero: %s" % badc[:4], observed=sorted(got.items(), key=repr)))
        if kind == "multiset" and badr and not badc and not (normalised):
            # known finding (mask row of the multiset vectorizer): still compare every other row
            got = {k: x for k, x in got.items() if k[0] != mask}
    if not (nullify and normalised):
        bad = R.compare_cells(got, exp)
        if bad:
            v.append(viol("cells:%s:%s" % (kind, "nomask" if mask is None else ("nullify" if nullify else "mask")),
                          "cells differ from the stated rule: (cell, got, expected) = %s" % (bad,),
                          observed=sorted(got.items(), key=repr), expected=sorted(exp.items(), key=repr)))
    return res(v, nt=(kind, tuple(docs), repr(pruning), mask, nullify, repr(cfg)) if removed else None,
               out="removed=%d" % min(removed, 3))


def _cases(tier, kind):
    if kind == "token":
        docs = sigma("abc", 3)
        pairs = list(itertools.product(docs, repeat=2))
        if tier != "quick":
            long_docs = [d for d in sigma("abc", 4) if len(d) == 4]
            pairs += [(a, b) for a in long_docs for b in docs[::3]] + [(b, a) for a in long_docs[::2] for b in docs[::5]]
        cfgs = CFGS
    elif kind == "timed":
        docs = sigma("abc", 3) if tier != "quick" else sigma("ab", 3)
        pairs = list(itertools.product(docs, repeat=2))
        cfgs = [c for c in CFGS if c["kernel"] != "harmonic"]
    elif kind == "ngram":
        pass
    if kind == "ngram":
        docs = sigma("abc", 3)
        pairs = list(itertools.product(docs, repeat=2))
        if tier == "quick":
            pairs = [p for p in pairs if len(p[0]) + len(p[1]) <= 5]
        cfgs = [c for c in CFGS if c["kernel"] != "geometric" and not c.get("wfun")][:3]
    elif kind == "multiset":
        docs = _multiset_docs("quick")
        pairs = [(d,) for d in docs]
        cfgs = [c for c in CFGS if c["kernel"] != "harmonic" and not (c.get("kargs") or {}).get("offset") and not c.get("wfun")]
    for cfg in cfgs:
        for pr in PRUNINGS:
            for mask, nullify in MASKS:
                if kind == "ngram" and nullify:
                    continue
                if "token_dictionary" in pr and (kind == "ngram" or cfg.get("wfun")):
                    continue
                for prior in ((False, True) if "token_dictionary" in pr else (False,)):
                    for p in pairs:
                        c = {"kind": kind, "cfg": cfg, "docs": list(p), "pruning": pr, "mask": mask, "nullify": nullify}
                        if prior:
                            c["prior"] = True
                        if kind == "timed":
                            c["times"] = [[float(i * (1 + (i % 2))) for i in range(len(d))] for d in p]
                        yield c


def _tree_cases(tier):
    """tree vectorizer: every forest <= 4 nodes over {a,b} with b removed, without mask / with mask / mask + nullify, all orientations"""
    from checks.c15 import all_items
    items = all_items(4, "ab")[:: (2 if tier == "quick" else 1)]
    for r, k in ((1, "flat"), (2, "harmonic"), (3, "flat")):
        for o in ("after", "before", "symmetric", "directional"):
            for pr in (1, 2, 3):
                for it in items:
                    yield {"items": [it], "radius": r, "kernel": k, "orientation": o, "pruning": pr}


def subchecks(tier, seed):
    from checks.c15 import run_case as run_tree
    subs = [Sub("mask_tree", "I", (lambda: _tree_cases(tier)), run_tree, total=sum(1 for _ in _tree_cases(tier)),
                describe="LabelledTreeCooccurrenceVectorizer: all forests <= 4 nodes over {a,b} with label b removed x {deleted, masked, masked + nullified} x radius/kernel x all four orientations (reference of C15: removed nodes contracted / replaced in place; with nullify the mask row and every mask column are zero)",
                nontrivial_rule="reference matrix non-zero")]
    for kind in ("token", "timed", "multiset", "ngram"):
        gen = (lambda k: (lambda: _cases(tier, k)))(kind)
        subs.append(Sub("mask_" + kind, "I", gen, run_case, total=sum(1 for _ in gen()),
                        describe="corpora x prunings {min_occurrences 2, excluded b, regex [bc], supplied dictionary {a,c} (also after an earlier fit with another mask on the same dictionary object)} x mask {None, M, M+nullify} x 8 window settings",
                        nontrivial_rule="pruning removed at least one token occurrence"))

    def comp():
        for c in _cases("quick", "token"):
            if len(c["docs"][0]) + len(c["docs"][1]) <= 4 and c["cfg"]["radii"] == [2] and c["cfg"]["kernel"] != "geometric":
                yield c
    subs.append(Sub("mask_token_compiled", "N", comp, run_case, total=sum(1 for _ in comp()),
                    describe="conformance in compiled mode: token estimator, corpora of <= 4 tokens, radius-2 settings",
                    nontrivial_rule="as above"))
    return subs
