"""C10 - compiled kernels never access memory outside their arrays.

Phase 1 executes a catalogue of calls - the small spaces of the other checks plus edge-steering
axes - in interpreted mode (Python semantics: IndexError / UnboundLocalError surface) and in
bounds-checked compiled mode, and records every result.  Phase 2 replays the calls that passed in
normal compiled mode and compares the results.
"""
from __future__ import annotations

import glob
import itertools
import os
import pickle

import numpy as np
import scipy.sparse as sp

from vmc import core
from vmc.core import Sub, res, viol
from vmc import estimators as E
from vmc.inputs import sigma

PROPERTY = "C10"
LEVEL_TEXT = ("a catalogue of calls covering every numba-backed estimator and distance function - the small input spaces of the other checks plus axes "
              "that steer kernels to their edges (length-0/1 sequences and strings, radii larger than the sequence, epsilon > 0 with n_iter >= 1, buffers "
              "at their minimum size with many threads, a supplied token_dictionary whose top index is unused at fit, masks) - is executed completely in "
              "interpreted mode and in bounds-checked compiled mode (no IndexError / UnboundLocalError may occur), and every call that passes is "
              "replayed in normal compiled mode where it must return the same result and must not kill the process")
LEVEL_NOTE = "'no out-of-range access' is decided on the enumerated catalogue only; undefined behaviour in normal mode is never used to decide a case that the checked modes flagged"
TECHNIQUE = "bounded exhaustive enumeration of calls executed in three execution modes of the real code (interpreted / bounds-checked / compiled) with cross-mode result comparison"
LEVEL = "exploration"
RULE = "complete catalogue; non-trivial = a numba kernel was actually entered with an edge-steering input (recorded per case by the catalogue)"
ASSUMPTIONS = ["NUMBA_BOUNDSCHECK=1 and NUMBA_DISABLE_JIT=1 execute the same kernel source as the normal build",
               "paths that cannot run interpreted (murmur-hashed LZ) are decided in bounds-checked mode only",
               "an out-of-range access inside a prange body of a parallel kernel is reported reliably only by the interpreted mode: in bounds-checked "
               "compiled mode the IndexError surfaces for the first failing call of a process, later ones as SystemError (counted) or not at all"]

SCRATCH = os.path.join(core.VERIF, "scratch", "c10")
PHASES = [["checked_I", "checked_B", "run_N"], ["compare_N"]]
WORKERS = {"I": 4, "B": 6, "N": 6}


def canon(x):
    if sp.issparse(x):
        return ("sp", x.shape, x.toarray().tolist())
    if isinstance(x, np.ndarray):
        return ("arr", x.shape, x.tolist())
    if isinstance(x, (list, tuple)) or (hasattr(x, "__iter__") and hasattr(x, "__len__") and not isinstance(x, (str, bytes, dict)) and not hasattr(x, "items")):
        return ("seq", [canon(e) for e in x])
    if isinstance(x, (float, np.floating)):
        return float(x)
    if isinstance(x, (int, np.integer)):
        return int(x)
    if hasattr(x, "items"):
        return ("dict", sorted((repr(k), canon(v)) for k, v in x.items()))
    return repr(x)


def close(a, b, tol=1e-5):
    if type(a) != type(b):
        try:
            return abs(float(a) - float(b)) <= tol * max(1.0, abs(float(a)))
        except Exception:
            return False
    if isinstance(a, float):
        # square-root amplified rounding near zero (hellinger of equal vectors): compare the squares as well
        return (np.isnan(a) and np.isnan(b)) or abs(a - b) <= tol * max(1.0, abs(a), abs(b)) or abs(a * a - b * b) <= 1e-6
    if isinstance(a, (list, tuple)):
        return len(a) == len(b) and all(close(x, y, tol) for x, y in zip(a, b))
    return a == b


# ---------------------------------------------------------------- the catalogue

def _cooc_call(kind, cfg, docs, test=None):
    from checks.c03 import build_estimator, make_corpus
    times = lambda ds: [[float(j * (1 + j % 2)) for j in range(len(d))] for d in ds]
    c2 = dict(cfg)
    if "excluded_tokens" in c2:
        c2["excluded_tokens"] = set(c2["excluded_tokens"])
    est = build_estimator(kind, c2)
    out = est.fit_transform(make_corpus(kind, docs, times(docs)))
    if test is not None:
        return [out, est.transform(make_corpus(kind, test, times(test)))]
    return out


def execute(case):
    import vectorizers as V
    from vectorizers import distances as D
    k = case["k"]
    if k == "cooc":
        return _cooc_call(case["kind"], case["cfg"], case["docs"], case.get("test"))
    if k == "registry":
        spec = E.BY_NAME[case["spec"]]
        cfg = spec.configs("quick")[case["cfg"]]
        est = spec.make(cfg)
        ft = E.fit_transform(spec, est, spec.train_sets(cfg, "quick")[0], cfg)
        pool = spec.pool(cfg, "quick")
        return [ft, E.transform(spec, est, [pool[i] for i in case["batch"]], cfg)]
    if k == "infow":
        import scipy.sparse as sp
        from vectorizers.transformers.info_weight import information_weight
        from vectorizers.transformers import InformationWeightTransformer
        M = np.array(case["M"], dtype=np.float64)
        out = [np.asarray(information_weight(sp.csr_matrix(M), case["ps"], case["approx"])),
               np.asarray(information_weight(sp.csc_matrix(M), case["ps"], case["approx"]))]
        t = InformationWeightTransformer(prior_strength=case["ps"], approx_prior=case["approx"])
        out.append(t.fit_transform(sp.csr_matrix(M), y=np.arange(M.shape[0]) % 2))
        return out
    if k == "distance":
        x, y = np.array(case["x"], dtype=np.float64), np.array(case["y"], dtype=np.float64)
        out = []
        if x.sum() > 0 and y.sum() > 0:
            for name in ("hellinger", "total_variation", "kantorovich1d", "jensen_shannon_divergence", "symmetric_kl_divergence"):
                out.append(float(getattr(D, name)(x.copy(), y.copy())))
        else:
            out.append(float(D.hellinger(x.copy(), y.copy())))      # defined for zero vectors (returns 0 / 1)
        ix, iy = np.nonzero(x)[0].astype(np.int32), np.nonzero(y)[0].astype(np.int32)
        dx, dy = x[ix].astype(np.float32), y[iy].astype(np.float32)
        for name in ("sparse_hellinger", "sparse_total_variation", "sparse_jensen_shannon_divergence", "sparse_symmetric_kl_divergence"):
            out.append(float(getattr(D, name)(ix.copy(), dx.copy(), iy.copy(), dy.copy())))
        for name in ("sparse_sum", "sparse_diff", "sparse_mul"):
            i_, d_ = getattr(D, name)(ix.copy(), dx.copy(), iy.copy(), dy.copy())
            out.append([np.asarray(i_).tolist(), np.asarray(d_).tolist()])
        return out
    if k == "bpe":
        est = V.BytePairEncodingVectorizer(return_type="sequences", **case["kw"])
        ft = est.fit_transform(list(case["corpus"]))
        return [[list(map(int, e)) for e in ft], [list(map(int, e)) for e in est.transform(list(case["tests"]))]]
    if k == "lz":
        est = V.LZCompressionVectorizer(**case["kw"])
        ft = est.fit_transform(list(case["corpus"]))
        # columns are numbered in first-seen order: compare sorted column profiles
        t = est.transform(list(case["tests"]))
        return [ft, t]
    if k == "sliding":
        from vectorizers.transformers import SlidingWindowTransformer
        est = SlidingWindowTransformer(**case["kw"])
        return est.fit_transform([np.array(s, dtype=np.float64) for s in case["seqs"]])
    if k == "transport":
        from vectorizers.linear_optimal_transport import transport_plan
        return transport_plan(np.array(case["p"], dtype=np.float64), np.array(case["q"], dtype=np.float64), np.array(case["cost"], dtype=np.float64))
    if k == "tree":
        from checks.c15 import make_item
        est = V.LabelledTreeCooccurrenceVectorizer(**case["kw"])
        return est.fit_transform([make_item(p, l) for p, l in case["items"]])
    raise ValueError(k)


def catalogue(tier):
    from checks.c03 import LATTICE
    docs = sigma("ab", 3)
    short = ["", "a", "b", "ab", "ba", "aab"]
    # co-occurrence family: radius larger than every sequence, length-0/1 sequences, EM with epsilon, masks, threads, tiny buffers
    base = [dict(radii=[r], kernel=k, orient=o, normwin=True) for r in (1, 5) for k in ("flat", "harmonic") for o in ("after", "directional")]
    extras = [{}, {"n_iter": 1, "epsilon": 0.3}, {"n_iter": 2, "epsilon": 0.5}, {"n_iter": 2}, {"mask_string": "M", "excluded_tokens": ["b"], "nullify_mask": True},
              {"wfun": "variable"}, {"coo_initial_memory": "1k", "n_threads": 16}, {"coo_initial_memory": "1k", "n_threads": 2, "n_iter": 1},
              {"kargs": {"offset": 2}}, {"kargs": {"offset": 3, "normalize": True}, "n_iter": 1}]
    for kind in ("token", "timed", "multiset", "ngram"):
        for c in base:
            if kind in ("timed", "multiset") and c["kernel"] == "harmonic":
                continue
            for ex in extras:
                if kind == "multiset" and (ex.get("wfun") or ex.get("kargs")):
                    continue
                if kind == "ngram" and (c["radii"] == [5] or ex.get("n_threads") or tier == "quick" and ex.get("mask_string")):
                    continue
                cfg = dict(c, **ex)
                if kind == "ngram":
                    cfg["ngram"] = 2
                pairs = [(a, b) for a in short for b in short[1:]]
                if tier == "quick":
                    pairs = pairs[::3]
                if kind == "ngram":
                    pairs = pairs[::31]       # every instance recompiles its kernels in compiled modes
                for a, b in pairs:
                    d = [a, b] if kind != "multiset" else ["%s|%s" % (a, b)]
                    yield {"k": "cooc", "kind": kind, "cfg": cfg, "docs": d}
    # supplied dictionary whose highest index is unused at fit but used at transform
    for kind in ("token", "timed"):
        for c in base[::2]:
            for ex in ({}, {"wfun": "variable"}, {"n_iter": 1}):
                if kind == "timed" and c["kernel"] == "harmonic":
                    continue
                cfg = dict(c, token_dictionary={"a": 0, "b": 1, "c": 2}, **ex)
                for F, T in ((["ab", "ba"], ["abc", "c"]), (["a"], ["cba", ""]), (["ab"], ["cccc"])):
                    yield {"k": "cooc", "kind": kind, "cfg": cfg, "docs": F, "test": T}
    # registry estimators backed by numba
    for name in ("ngram", "skipgram", "lz", "lz_hashed", "bpe", "wasserstein", "wasserstein_lil", "sinkhorn", "info_weight", "row_denoise", "kde"):
        spec = E.BY_NAME[name]
        for ci in range(len(spec.configs("quick"))):
            n = len(spec.pool(spec.configs("quick")[ci], "quick"))
            for b in [[i] for i in range(n)] + [list(range(n))]:
                yield {"k": "registry", "spec": name, "cfg": ci, "batch": b}
    # information weights: every 2x2 and a slice of the 3x3 count matrices over {0,1,5} - empty columns (no entry to read
    # in the column's index array), empty rows, single entries - exact and approximate prior, unsupervised and supervised
    for shape in ((2, 2), (3, 3)):
        for ent in list(itertools.product((0, 1, 5), repeat=shape[0] * shape[1]))[:: (1 if shape == (2, 2) else 97)]:
            if sum(ent) == 0:
                continue
            for approx in (False, True):
                yield {"k": "infow", "M": [list(ent[i * shape[1]:(i + 1) * shape[1]]) for i in range(shape[0])], "ps": 1.0 if approx else 1e-4, "approx": approx}
    # distances on a small grid incl. single-entry vectors and disjoint supports
    G = [0.0, 1.0, 3.0, 1e-3]
    # all-zero vectors are included: their sparse encodings are EMPTY index/data arrays (all-zero matrix rows)
    vs = [v for d in ((1, 2) if tier == "quick" else (1, 2, 3)) for v in itertools.product(G, repeat=d)]
    for x in vs:
        for y in vs:
            if len(x) == len(y):
                yield {"k": "distance", "x": list(x), "y": list(y)}
    # BPE / LZ with length-0/1 strings and strings collapsing to one code
    strings = sigma("ab", 3)
    tests = ["", "a", "b", "ab", "abab", "z"]
    for kw in ({"max_vocab_size": 1}, {"max_vocab_size": 2}, {"max_vocab_size": 10000}, {"max_vocab_size": 10000, "min_token_occurrence": 2}):
        for a in strings:
            for b in (("", "abab") if tier == "quick" else ("", "a", "abab")):
                yield {"k": "bpe", "kw": kw, "corpus": [a, b], "tests": tests}
    for kw in ({"max_columns": None}, {"max_columns": None, "max_dict_size": 2}, {"max_columns": 4, "random_state": 1}):
        for a in strings[:: (1 if kw["max_columns"] is None else 5)]:
            yield {"k": "lz", "kw": kw, "corpus": [a, "ab"], "tests": tests}
    # sliding windows (each fit compiles a closure in compiled modes: small set)
    for kw in ({"window_width": 2}, {"window_width": 3, "window_stride": 2, "window_sample": 2}, {"window_width": 3, "window_sample": [2, 0]},
               {"window_width": 2, "pad_width": 2, "pad_value": -1}, {"window_width": 3, "kernels": [("differences", 0, 1, 1)]}):
        for L in (3, 4, 7):
            yield {"k": "sliding", "kw": kw, "seqs": [[2.0 ** i for i in range(L)], [3.0 ** i for i in range(L + 1)]]}
    # transport plans incl. zero-mass entries
    for (p, q) in (([1.0], [1.0]), ([0.5, 0.5], [1.0]), ([0.25, 0.75, 0.0], [0.5, 0.5]), ([0.0, 1.0], [0.0, 0.5, 0.5]), ([0.25, 0.25, 0.5], [0.5, 0.25, 0.25])):
        for cost in itertools.product((0.0, 1.0, 2.0), repeat=min(len(p) * len(q), 4)):
            c = (list(cost) * 3)[: len(p) * len(q)]
            yield {"k": "transport", "p": p, "q": q, "cost": [c[i * len(q):(i + 1) * len(q)] for i in range(len(p))]}
    # tree vectorizer (scipy + label binarizer; no numba kernels of its own but uses the window kernels)
    from checks.c15 import all_items
    for it in all_items(3, "ab")[::4]:
        yield {"k": "tree", "kw": {"window_radius": 3, "kernel_function": "harmonic", "window_orientation": "directional"}, "items": [it]}


_CAT = {}


def cat(tier):
    if tier not in _CAT:
        _CAT[tier] = list(catalogue(tier))
    return _CAT[tier]


def interpretable(case):
    return not (case["k"] == "registry" and case["spec"] == "lz_hashed") and not (case["k"] == "lz" and case["kw"].get("max_columns") is not None)


_STORE = {}


def run_checked(case, mode):
    idx = case["_i"]
    try:
        out = ("ok", canon(execute(case)))
    except (IndexError, UnboundLocalError, NameError) as e:
        out = ("oob", "%s: %s" % (type(e).__name__, e))
    except SystemError as e:
        # bounds-checked compiled mode: an IndexError raised inside a prange body of a parallel kernel surfaces only for
        # the first failing call of a process; later ones arrive as SystemError("... returned a result with an exception
        # set") or not at all (observed with the info-weight kernels).  Same class of observation.
        out = ("oob", "SystemError: %s" % e) if mode == "B" else ("exc", "SystemError")
    except Exception as e:
        out = ("exc", type(e).__name__)
    _STORE.setdefault(mode, {})[idx] = out
    v = []
    if out[0] == "oob":
        where = case["k"] + (":" + case.get("kind", case.get("spec", "")) if case["k"] in ("cooc", "registry") else "")
        v.append(viol("out-of-range-or-unbound:%s:%s" % (where, out[1].split(":")[0]), "%s mode: %s raised %s" % (mode, {k: v_ for k, v_ in case.items() if k != "_i"}, out[1])))
    return res(v, nt=idx, out="%s:%s" % (case["k"], out[0]))


def flush(mode):
    os.makedirs(SCRATCH, exist_ok=True)
    with open(os.path.join(SCRATCH, "%s-%d.pkl" % (mode, os.getpid())), "ab") as f:
        pickle.dump(_STORE.get(mode, {}), f)


def run_checked_I(case):
    r = run_checked(case, "I")
    _maybe_flush("I", case)
    return r


def run_checked_B(case):
    r = run_checked(case, "B")
    _maybe_flush("B", case)
    return r


_COUNT = {"I": 0, "B": 0, "N": 0}


def run_N(case):
    """phase 1, normal compiled mode: execute and record (compared in phase 2)"""
    idx = case["_i"]
    try:
        out = ("ok", canon(execute(case)))
    except Exception as e:
        out = ("exc", type(e).__name__)
    _STORE.setdefault("N", {})[idx] = out
    _maybe_flush("N", case)
    return res([], nt=idx, out="%s:%s" % (case["k"], out[0]))


def _maybe_flush(mode, case):
    _COUNT[mode] += 1
    # results are appended to the worker's file after every case (a crash must not lose them)
    os.makedirs(SCRATCH, exist_ok=True)
    with open(os.path.join(SCRATCH, "%s-%d.pkl" % (mode, os.getpid())), "ab") as f:
        pickle.dump({case["_i"]: _STORE[mode][case["_i"]]}, f)


_LOADED = {}


def load(mode):
    if mode not in _LOADED:
        d = {}
        for fn in glob.glob(os.path.join(SCRATCH, "%s-*.pkl" % mode)):
            with open(fn, "rb") as f:
                while True:
                    try:
                        d.update(pickle.load(f))
                    except EOFError:
                        break
        _LOADED[mode] = d
    return _LOADED[mode]


def run_compare(case):
    """phase 2: the normal compiled result must equal the interpreted and the bounds-checked one"""
    idx = case["_i"]
    ri, rb, out = load("I").get(idx), load("B").get(idx), load("N").get(idx)
    if (ri is None and interpretable(case)) or rb is None:
        return res([viol("harness:missing-phase1-result", "no phase-1 result for case %d" % idx)])
    checked = [r for r in (ri, rb) if r is not None]
    if any(r[0] == "oob" for r in checked):
        return res(rej=True, out="skipped:flagged-in-checked-mode")   # undefined behaviour in normal mode decides nothing
    if out is None:
        return res(rej=True, out="no-compiled-result (process died: reported by run_N)")
    v = []
    for name, r in (("interpreted", ri), ("bounds-checked", rb)):
        if r is None:
            continue
        same = (r[0] == out[0]) and (close(r[1], out[1]) if r[0] == "ok" else True)
        if not same:
            where = case["k"] + (":" + case.get("kind", case.get("spec", "")) if case["k"] in ("cooc", "registry") else "")
            v.append(viol("compiled-differs-from-%s:%s" % (name, where), "case %s: compiled %s, %s %s" % (
                {k: v_ for k, v_ in case.items() if k != "_i"}, str(out)[:300], name, str(r)[:300])))
            break
    return res(v, nt=idx, out="%s:%s" % (case["k"], out[0]))


def _cases(tier, only_interpretable=False):
    for i, c in enumerate(cat(tier)):
        if only_interpretable and not interpretable(c):
            continue
        yield dict(c, _i=i)


def _clean():
    import shutil
    shutil.rmtree(SCRATCH, ignore_errors=True)
    os.makedirs(SCRATCH, exist_ok=True)


def subchecks(tier, seed):
    gi = lambda: _cases(tier, True)
    ga = lambda: _cases(tier)
    if os.environ.get("VMC_WORKER_TMP") is None and not os.environ.get("VMC_C10_KEEP"):
        pass
    return [
        Sub("checked_I", "I", gi, run_checked_I, total=sum(1 for _ in gi()),
            describe="the whole catalogue (except murmur-hashed LZ) in interpreted mode: no IndexError / UnboundLocalError / NameError",
            nontrivial_rule="every catalogue entry (all are chosen to enter a kernel with an edge-steering input)", contiguous=True, shards=16),
        Sub("checked_B", "B", ga, run_checked_B, total=sum(1 for _ in ga()),
            describe="the whole catalogue compiled with NUMBA_BOUNDSCHECK=1", nontrivial_rule="as above", contiguous=True, shards=16),
        Sub("run_N", "N", ga, run_N, total=sum(1 for _ in ga()), timeout_s=900,
            describe="the whole catalogue in normal compiled mode (results recorded; abnormal termination is reported)",
            nontrivial_rule="as above", crash_sig=lambda case: "abnormal-termination:%s" % case["k"], contiguous=True, shards=16),
        Sub("compare_N", "I", ga, run_compare, total=sum(1 for _ in ga()),
            describe="every entry that passed the checked modes: normal compiled result == interpreted result == bounds-checked result (1e-5)",
            nontrivial_rule="as above"),
    ]
