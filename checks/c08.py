"""C08 - Wasserstein embeddings depend only on the measure, not on its encoding."""
from __future__ import annotations

import itertools

import numpy as np
import scipy.sparse as sp

from vmc.core import Sub, res, viol
from vmc.inputs import compositions

PROPERTY = "C08"
LEVEL_TEXT = ("for each (metric, vectorizer, dimension) a model is fitted on a fixed small collection; then EVERY distribution with masses in "
              "multiples of 1/4 over 4 support points in generic position is transformed under the complete group of re-encodings - 3 scalings, "
              "zero-weight padding (structural / explicit zero, extra vector), all 24 permutations of the support, every split of a support point "
              "into two duplicates (1/2-1/2, 1/4-3/4) - and the embeddings must coincide; duplicated rows, every transform-time block size, the three "
              "input formats and (full rank) pairwise distances vs raw LOT vectors are compared as well.  Distributions whose optimal plan is not "
              "unique (decided by enumerating all spanning-tree bases of the transport polytope) are excluded for the exact method, because LOT "
              "itself is not defined there")
LEVEL_NOTE = "uniqueness oracle: exhaustive enumeration of basic solutions; invariance oracles are differential (no hand-written values); interpreted mode for the full product, compiled replay of a sub-product"
TECHNIQUE = "bounded exhaustive enumeration of inputs x re-encoding group x block sizes on the real code with differential oracles (explicit-state explorer)"
LEVEL = "exploration"
RULE = "complete product; non-trivial = distribution supported on at least two points (so that the plan and the re-encodings matter)"
ASSUMPTIONS = ["embeddings compared to 1e-5 absolute (float32 cosine scaling inside the kernels); Sinkhorn to 1e-4"]

VEC = {2: np.array([[1.0, 0.2], [0.3, 1.0], [1.0, 1.5], [2.0, 0.1]]),
       3: np.array([[1.0, 0.2, 0.1], [0.3, 1.0, 0.4], [1.0, 1.5, 0.2], [2.0, 0.1, 0.9]])}
EXTRA = {2: np.array([5.0, -3.0]), 3: np.array([5.0, -3.0, 2.0])}
TRAIN = np.array([[1, 2, 0, 1], [0, 1, 1, 0], [3, 0, 0, 1], [1, 1, 1, 1], [0, 0, 2, 1.0]])


def fit_model(kind, metric, dim, refsize=3, input_method="spmatrix", reference=None):
    import vectorizers as V
    vec = VEC[dim]
    if kind == "exact":
        kw = {}
        if input_method == "generator":
            kw = dict(generator_vector_dim=dim, generator_n_distributions=TRAIN.shape[0])
        est = V.WassersteinVectorizer(n_components=refsize * dim, reference_size=refsize, metric=metric, random_state=3,
                                      input_method=input_method, **kw)
    elif kind == "sinkhorn":
        est = V.SinkhornVectorizer(n_components=refsize * dim, reference_size=refsize, metric=metric, random_state=3)
    else:
        est = V.ApproximateWassersteinVectorizer(n_components=dim, random_state=3)
    fk = {}
    if reference is not None:
        fk = dict(reference_vectors=reference[0], reference_distribution=reference[1])
    if input_method == "spmatrix":
        est.fit(sp.csr_matrix(TRAIN), vectors=vec, **fk)
    elif input_method == "lil":
        X, vs = to_lil(TRAIN, vec)
        est.fit(X, vectors=vs, **fk)
    else:
        X, vs = to_lil(TRAIN, vec)
        est.fit((x for x in X), vectors=(v for v in vs), **fk)
    return est


def to_lil(M, vec):
    X, vs = [], []
    for row in np.asarray(M, dtype=np.float64):
        nz = np.nonzero(row)[0]
        X.append(row[nz].copy())
        vs.append(np.ascontiguousarray(vec[nz]))
    return X, vs


def cost_matrix(rows, refs, metric):
    if metric == "cosine":
        a = rows / np.linalg.norm(rows, axis=1, keepdims=True)
        b = refs / np.linalg.norm(refs, axis=1, keepdims=True)
        return 1.0 - a @ b.T
    return np.linalg.norm(rows[:, None, :] - refs[None, :, :], axis=2)


def plan_is_unique(p, q, C):
    """Enumerate all basic solutions (spanning trees of the bipartite support graph) of the transport
    polytope; unique iff all optimal feasible basic solutions coincide."""
    n, m = len(p), len(q)
    cells = [(i, j) for i in range(n) for j in range(m)]
    best, sols = None, []
    for S in itertools.combinations(cells, n + m - 1):
        # solve by repeatedly eliminating leaves
        x = {}
        rp, rq = list(p), list(q)
        rem = set(S)
        ok = True
        while rem:
            deg_r = {}
            deg_c = {}
            for (i, j) in rem:
                deg_r[i] = deg_r.get(i, 0) + 1
                deg_c[j] = deg_c.get(j, 0) + 1
            leaf = None
            for (i, j) in rem:
                if deg_r[i] == 1:
                    leaf = (i, j, "r")
                    break
                if deg_c[j] == 1:
                    leaf = (i, j, "c")
                    break
            if leaf is None:
                ok = False      # contains a cycle: not a tree
                break
            i, j, side = leaf
            val = rp[i] if side == "r" else rq[j]
            x[(i, j)] = val
            rp[i] -= val
            rq[j] -= val
            rem.discard((i, j))
        if not ok or any(abs(r) > 1e-9 for r in rp) or any(abs(r) > 1e-9 for r in rq):
            continue
        if min(x.values()) < -1e-12:
            continue
        c = sum(v * C[i][j] for (i, j), v in x.items())
        sols.append((c, x))
        best = c if best is None or c < best else best
    opt = [x for c, x in sols if c <= best + 1e-9]
    base = opt[0]
    for x in opt[1:]:
        for cell in cells:
            if abs(x.get(cell, 0.0) - base.get(cell, 0.0)) > 1e-7:
                return False
    return True


def encodings(w, vec, dim):
    """All re-encodings (name, weights, vectors) of the measure sum_i w_i delta_{vec_i}."""
    w = np.asarray(w, dtype=np.float64)
    out = []
    for s in (0.5, 3.0, 1e-3):
        out.append(("scale", w * s, vec, None))
    out.append(("pad-structural-zero", np.append(w, 0.0), np.vstack([vec, EXTRA[dim]]), None))
    out.append(("pad-explicit-zero", np.append(w, 0.0), np.vstack([vec, EXTRA[dim]]), "explicit"))
    out.append(("pad-front", np.insert(w, 0, 0.0), np.vstack([EXTRA[dim], vec]), None))
    # many zero-weight points / many duplicates: problem sizes far from the reference size
    far = np.array([[5.0 + 0.37 * k, -3.0 - 0.11 * k] + ([2.0 + 0.05 * k] if dim == 3 else []) for k in range(40)])
    out.append(("pad-many", np.concatenate([w, np.zeros(40)]), np.vstack([vec, far]), None))
    wm, vm = [], []
    for j in range(len(w)):
        for _ in range(12):
            wm.append(w[j] / 12.0)
            vm.append(vec[j])
    out.append(("split-many", np.array(wm), np.array(vm), None))
    for perm in itertools.permutations(range(len(w))):
        if list(perm) == list(range(len(w))):
            continue
        out.append(("permute", w[list(perm)], vec[list(perm)], None))
    for j in range(len(w)):
        if w[j] == 0:
            continue
        for frac in (0.5, 0.25):
            w2 = np.append(w, w[j] * (1 - frac))
            w2[j] = w[j] * frac
            out.append(("split", w2, np.vstack([vec, vec[j]]), None))
    return out


def as_input(w, explicit=None):
    w = np.asarray(w, dtype=np.float64).reshape(1, -1)
    if explicit:
        return sp.csr_matrix((w.flatten(), np.arange(w.shape[1]), np.array([0, w.shape[1]])), shape=w.shape)
    return sp.csr_matrix(w)


_MODELS = {}


def model(kind, metric, dim, refsize=3):
    key = (kind, metric, dim, refsize)
    if key not in _MODELS:
        _MODELS[key] = fit_model(kind, metric, dim, refsize=refsize)
    return _MODELS[key]


def run_measure(case):
    kind, metric, dim = case["kind"], case["metric"], case["dim"]
    w = np.array(case["w"], dtype=np.float64)
    vec = VEC[dim]
    est = model(kind, metric, dim, case.get("refsize", 3))
    tol = 1e-5 if kind != "sinkhorn" else 1e-4
    supp = np.nonzero(w)[0]
    if kind == "exact" and len(supp) > 1:
        C = cost_matrix(vec[supp], est.reference_vectors_, metric)
        if not plan_is_unique(list(w[supp] / w.sum()), list(est.reference_distribution_), C.tolist()):
            return res(amb=True, out="non-unique-plan")
    v = []
    try:
        base = np.asarray(est.transform(as_input(w), vectors=vec)) if kind != "approx" else np.asarray(est.transform(as_input(w)))
    except Exception as e:
        return res([viol("exception:%s" % type(e).__name__, "transform raised %r" % (e,))], out="exc")
    if not np.isfinite(base).all():
        return res([viol("non-finite", "embedding %s" % base.tolist())], out="nan")
    encs = encodings(w, vec, dim) if kind != "approx" else [e for e in encodings(w, vec, dim) if e[0] == "scale"]
    for name, w2, v2, explicit in encs:
        try:
            X2 = as_input(w2, explicit)
            out = np.asarray(est.transform(X2, vectors=v2)) if kind != "approx" else np.asarray(est.transform(X2))
        except Exception as e:
            v.append(viol("exception:%s:%s" % (name, type(e).__name__), "re-encoding %s (%s) raised %r" % (name, w2.tolist(), e)))
            continue
        if out.shape != base.shape or np.abs(out - base).max() > tol:
            v.append(viol("encoding-dependent:%s:%s:%s" % (kind, metric, name),
                          "re-encoding %s of weights %s changes the embedding by %.3g" % (name, w.tolist(), float(np.abs(out - base).max()) if out.shape == base.shape else -1),
                          observed=out.tolist(), expected=base.tolist()))
            break
    return res(v, nt=(kind, metric, dim, tuple(case["w"])) if len(supp) > 1 else None, out="supp=%d" % len(supp))


def _measure_cases(tier, kinds, dims):
    U = 5 if tier == "quick" else 6
    for kind in kinds:
        for metric in ("cosine", "euclidean"):
            if kind == "approx" and metric == "euclidean":
                continue
            for dim in dims:
                for w in compositions(U, 4):
                    yield {"kind": kind, "metric": metric, "dim": dim, "w": list(w)}
                    if tier != "quick" and kind != "approx":
                        for rs in (2, 4):
                            yield {"kind": kind, "metric": metric, "dim": dim, "w": list(w), "refsize": rs}


def run_batch(case):
    """Duplicated rows, transform-time block sizes, input formats, full-rank distances."""
    import vectorizers as V
    from vectorizers import linear_optimal_transport as LOT
    kind, metric, dim = case["kind"], case["metric"], case["dim"]
    rows = np.array(case["rows"], dtype=np.float64)
    vec = VEC[dim]
    est = model(kind, metric, dim)
    tol = 1e-5 if kind != "sinkhorn" else 1e-4
    v = []
    T = lambda M: np.asarray(est.transform(sp.csr_matrix(M), vectors=vec)) if kind != "approx" else np.asarray(est.transform(sp.csr_matrix(M)))
    saved = est.memory_size if hasattr(est, "memory_size") else None
    try:
        base = T(rows)
        each = np.vstack([T(rows[i:i + 1]) for i in range(len(rows))])
        if np.abs(base - each).max() > tol:
            v.append(viol("batch-dependent:%s" % kind, "rows transformed together differ from rows transformed alone by %.3g" % np.abs(base - each).max()))
        for i in range(len(rows)):
            for j in range(i):
                if np.array_equal(rows[i] / rows[i].sum(), rows[j] / rows[j].sum()) and np.abs(base[i] - base[j]).max() > tol:
                    v.append(viol("equal-rows-differ:%s" % kind, "rows %d and %d carry the same measure but differ" % (i, j)))
        if saved is not None:
            lot_dim = est.reference_vectors_.size
            for bs in (1, 2, 3):
                est.memory_size = str(bs * lot_dim * 8)
                for cs in ((1, 2, 32) if kind == "sinkhorn" else (None,)):
                    if cs is not None:
                        est.chunk_size = cs
                    out = T(rows)
                    if out.shape != base.shape or np.abs(out - base).max() > tol:
                        v.append(viol("block-size-dependent:%s" % kind, "block size %d chunk %s changes the result by %.3g" % (bs, cs, np.abs(out - base).max() if out.shape == base.shape else -1)))
                        break
    except Exception as e:
        v.append(viol("batch-exception:%s:%s" % (kind, type(e).__name__), "raised %r" % (e,)))
    finally:
        if saved is not None:
            est.memory_size = saved
            if kind == "sinkhorn":
                est.chunk_size = 32
    if kind == "exact" and not v:
        ref = (est.reference_vectors_.copy(), est.reference_distribution_.copy())
        G0 = base @ base.T
        e2s = {}
        for im in ("lil", "generator"):
            try:
                e2 = fit_model("exact", metric, dim, input_method=im, reference=ref)
                e2s[im] = e2
                X, vs = to_lil(rows, vec)
                if im == "lil":
                    for ms in ("2G", str(est.reference_vectors_.size * 8), "8"):
                        e2.memory_size = ms
                        out = np.asarray(e2.transform([x.copy() for x in X], vectors=[a.copy() for a in vs]))
                        if out.shape != base.shape or np.abs(out @ out.T - G0).max() > 1e-4:
                            v.append(viol("format-dependent:lil", "list input (memory_size %s) gives a different Gram matrix (max diff %.3g)" % (ms, np.abs(out @ out.T - G0).max() if out.shape == base.shape else -1)))
                            break
                else:
                    e2.generator_n_distributions = len(X)
                    out = np.asarray(e2.transform((x for x in X), vectors=(a for a in vs)))
                    if out.shape != base.shape or np.abs(out @ out.T - G0).max() > 1e-4:
                        v.append(viol("format-dependent:generator", "generator input gives a different Gram matrix (max diff %.3g)" % (np.abs(out @ out.T - G0).max() if out.shape == base.shape else -1)))
            except Exception as e:
                v.append(viol("format-exception:%s:%s" % (im, type(e).__name__), "%s input raised %r" % (im, e)))
        # truncation to max_distribution_size: a row with more support points than the limit is embedded as the measure made
        # of its k heaviest points, renormalised - in every input format (rows perturbed so that all four masses differ)
        prows = rows + np.array([0.4, 0.3, 0.2, 0.1])
        for k in (2, 3):
            trunc = prows.copy()
            for r in trunc:
                r[np.argsort(-r)[k:]] = 0.0
            try:
                want = T(trunc)
                Gk = want @ want.T
                est.max_distribution_size = k
                out = T(prows)
                if out.shape != want.shape or np.abs(out - want).max() > tol:
                    v.append(viol("truncation:spmatrix", "max_distribution_size=%d: transform differs from the transform of the %d heaviest points by %.3g" % (k, k, np.abs(out - want).max() if out.shape == want.shape else -1)))
                X, vs = to_lil(prows, vec)
                for im in ("lil", "generator"):
                    e2 = e2s.get(im)
                    if e2 is None:
                        continue
                    e2.max_distribution_size = k
                    e2.memory_size = "2G"
                    if im == "lil":
                        out = np.asarray(e2.transform([x.copy() for x in X], vectors=[a.copy() for a in vs]))
                    else:
                        e2.generator_n_distributions = len(X)
                        out = np.asarray(e2.transform((x for x in X), vectors=(a for a in vs)))
                    if out.shape != want.shape or np.abs(out @ out.T - Gk).max() > 1e-4:
                        v.append(viol("truncation:%s" % im, "max_distribution_size=%d, %s input: Gram matrix differs from that of the %d heaviest points by %.3g" % (k, im, k, np.abs(out @ out.T - Gk).max() if out.shape == want.shape else -1)))
            except Exception as e:
                v.append(viol("truncation-exception:%s" % type(e).__name__, "max_distribution_size=%d raised %r" % (k, e)))
            finally:
                est.max_distribution_size = 256
        # full rank: distances between embedded training rows equal those between raw LOT vectors
        Xn = sp.csr_matrix(TRAIN / TRAIN.sum(axis=1, keepdims=True))
        vv = vec / np.linalg.norm(vec, axis=1, keepdims=True) if metric == "cosine" else vec
        raw = LOT.lot_vectors_sparse_internal(Xn.indptr, Xn.indices, Xn.data, vv, est.reference_vectors_, est.reference_distribution_,
                                              metric=est._get_metric(), max_distribution_size=256, chunk_size=256, spherical_vectors=(metric == "cosine"))
        E = np.asarray(est.embedding_)
        if min(TRAIN.shape[0], raw.shape[1]) <= E.shape[1]:
            d_raw = np.linalg.norm(raw[:, None, :] - raw[None, :, :], axis=2)
            d_emb = np.linalg.norm(E[:, None, :] - E[None, :, :], axis=2)
            if np.abs(d_raw - d_emb).max() > 1e-5 * max(1.0, d_raw.max()):
                v.append(viol("full-rank-distances", "pairwise distances of embedding_ differ from raw LOT distances by %.3g" % np.abs(d_raw - d_emb).max()))
    return res(v, nt=repr(case), out="ok")


def _batch_cases(tier, kinds, dims):
    pool = [[1, 2, 0, 1], [2, 4, 0, 2], [0, 0, 0, 3], [1, 1, 1, 1], [0, 3, 1, 0], [5, 0, 0, 5]]
    n = 3 if tier == "quick" else 4
    for kind in kinds:
        for metric in ("cosine", "euclidean"):
            if kind == "approx" and metric == "euclidean":
                continue
            for dim in dims:
                for rows in itertools.product(pool, repeat=n):
                    if tier == "quick" and (rows[0] > rows[1]):
                        continue
                    yield {"kind": kind, "metric": metric, "dim": dim, "rows": [list(r) for r in rows]}


def subchecks(tier, seed):
    kinds, dims = ("exact", "sinkhorn", "approx"), (2, 3)
    g1 = lambda: _measure_cases(tier, kinds, dims)
    g2 = lambda: _batch_cases(tier, kinds, dims)
    g3 = lambda: (c for c in _measure_cases("quick", ("exact",), (2,)) if sum(1 for x in c["w"] if x) <= 3)
    g4 = lambda: (c for i, c in enumerate(_batch_cases("quick", ("exact", "sinkhorn"), (2,))) if i % 9 == 0)
    return [
        Sub("reencodings", "I", g1, run_measure, total=sum(1 for _ in g1()),
            describe="every distribution with masses k/4 over 4 generic support points x {exact, sinkhorn, approximate} x {cosine, euclidean} x the full re-encoding group (3 scalings, 3 paddings, 23 permutations, all splits)",
            nontrivial_rule="support of at least two points"),
        Sub("batches_blocks_formats", "I", g2, run_batch, total=sum(1 for _ in g2()),
            describe="all batches of 3(4) rows from a pool of 6 (incl. proportional and equal rows) x block sizes {1,2,3,inf} x sinkhorn chunk sizes {1,2,32} x input formats {spmatrix, lil, generator}; full-rank distance identity",
            nontrivial_rule="every batch"),
        Sub("reencodings_compiled", "N", g3, run_measure, total=sum(1 for _ in g3()),
            describe="compiled mode: exact method, both metrics, dimension 2, full re-encoding group", nontrivial_rule="as above"),
        Sub("batches_compiled", "N", g4, run_batch, total=sum(1 for _ in g4()),
            describe="compiled mode: every 9th batch case for exact and sinkhorn", nontrivial_rule="as above"),
    ]
