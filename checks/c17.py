"""C17 - information weights are KL divergences and transform is a fixed column scaling."""
from __future__ import annotations

import itertools
import math

import numpy as np
import scipy.sparse as sp

from vmc.core import Sub, res, viol

PROPERTY = "C17"
LEVEL_TEXT = ("every non-zero count matrix of shape 2x3 / 3x2 (3x3 thorough) with entries {0,1,2,5} x every storage format (dense, CSR, CSC, COO with a "
              "split duplicate, CSC with reversed in-column indices, explicit zeros) x prior_strength x exact/approximate x weight_power x targets is "
              "evaluated; exact weights are compared with a float64 KL computed from the definition, across formats, under all row and column "
              "permutations; transform is compared with X @ diag(w), for linearity and sparsity")
LEVEL_NOTE = "definition of the KL in the check (math.log, float64); interpreted mode full product, compiled mode sub-product"
TECHNIQUE = "bounded exhaustive input enumeration of the real code vs definition (explicit-state explorer, interpreted + compiled)"
LEVEL = "exploration"
RULE = "complete product; non-trivial = matrix with at least one zero entry (so the storage formats differ) and two columns with different profiles"
ASSUMPTIONS = ["weights compared to 1e-9 relative / 1e-12 absolute", "matrices whose exact weights are all zero make the mean-normalisation 0/0; these are counted as degenerate, not asserted for the transformer"]

ENTRIES = [0, 1, 2, 5]


def kl_definition(M, ps):
    M = np.asarray(M, dtype=np.float64)
    rows = M.sum(axis=1)
    base = rows / rows.sum()
    out = []
    for j in range(M.shape[1]):
        col = M[:, j]
        post = col + ps * base
        post = post / post.sum()
        k = 0.0
        for p, b in zip(post, base):
            if p > 0:
                k += p * math.log(p / b)
        out.append(k)
    return np.array(out)


def formats(M):
    M = np.asarray(M, dtype=np.float64)
    out = {"csr": sp.csr_matrix(M), "csc": sp.csc_matrix(M), "coo": sp.coo_matrix(M)}
    # COO with one entry split into two duplicates
    r, c = np.nonzero(M)
    if len(r):
        rr, cc, dd = list(r), list(c), list(M[r, c])
        i = max(range(len(dd)), key=lambda t: dd[t])
        if dd[i] >= 2:
            dd[i] -= 1
            rr.append(rr[i]); cc.append(cc[i]); dd.append(1.0)
        out["coo-dup"] = sp.coo_matrix((dd, (rr, cc)), shape=M.shape)
    # CSC with in-column indices reversed (unsorted)
    csc = sp.csc_matrix(M)
    ind, dat = csc.indices.copy(), csc.data.copy()
    for j in range(M.shape[1]):
        a, b = csc.indptr[j], csc.indptr[j + 1]
        ind[a:b] = ind[a:b][::-1]
        dat[a:b] = dat[a:b][::-1]
    uns = sp.csc_matrix((dat, ind, csc.indptr.copy()), shape=M.shape)
    uns.has_sorted_indices = False
    out["csc-unsorted"] = uns
    # explicit zeros: every cell stored
    full = sp.csr_matrix((M.flatten(), np.tile(np.arange(M.shape[1]), M.shape[0]),
                          np.arange(0, M.size + 1, M.shape[1])), shape=M.shape)
    out["csr-explicit-zeros"] = full
    return out


def run_case(case):
    from vectorizers.transformers import InformationWeightTransformer
    from vectorizers.transformers.info_weight import information_weight
    M = np.array(case["M"], dtype=np.float64)
    ps = case["ps"]
    v = []
    exp = kl_definition(M, ps)
    fm = formats(M)
    ws = {}
    for name, X in fm.items():
        try:
            w = np.asarray(information_weight(X.copy(), ps, False), dtype=np.float64)
        except Exception as e:
            v.append(viol("exception:%s:%s" % (type(e).__name__, name), "information_weight on %s raised %r" % (name, e)))
            continue
        ws[name] = w
        if not np.isfinite(w).all() or (w < -1e-12).any():
            v.append(viol("exact-not-finite-nonnegative:%s" % name, "weights %s" % w.tolist()))
        elif not np.allclose(w, exp, rtol=1e-9, atol=1e-12):
            v.append(viol("exact-differs-from-kl:%s" % name, "weights %s, KL definition %s" % (w.tolist(), exp.tolist())))
    base = ws.get("csr")
    if base is not None:
        # row permutations leave weights unchanged; column permutations permute them
        for perm in itertools.permutations(range(M.shape[0])):
            w = np.asarray(information_weight(sp.csr_matrix(M[list(perm)]), ps, False))
            if not np.allclose(w, base, rtol=1e-9, atol=1e-12):
                v.append(viol("row-permutation", "rows %s: %s vs %s" % (perm, w.tolist(), base.tolist())))
                break
        for perm in itertools.permutations(range(M.shape[1])):
            w = np.asarray(information_weight(sp.csr_matrix(M[:, list(perm)]), ps, False))
            if not np.allclose(w, base[list(perm)], rtol=1e-9, atol=1e-12):
                v.append(viol("column-permutation", "columns %s: %s vs %s" % (perm, w.tolist(), base[list(perm)].tolist())))
                break
        # approximate prior: finite, and the same invariances on the canonical format
        wa = np.asarray(information_weight(sp.csr_matrix(M), ps, True))
        if not np.isfinite(wa).all():
            v.append(viol("approx-not-finite", "weights %s" % wa.tolist()))
        else:
            for perm in itertools.permutations(range(M.shape[0])):
                w = np.asarray(information_weight(sp.csr_matrix(M[list(perm)]), ps, True))
                if not np.allclose(w, wa, rtol=1e-9, atol=1e-12):
                    v.append(viol("approx-row-permutation", "rows %s: %s vs %s" % (perm, w.tolist(), wa.tolist())))
                    break
    # transformer
    degenerate = bool(np.all(np.abs(exp) < 1e-14))
    for approx in (False, True):
        for power in (1.0, 2.0):
            for target in case["targets"]:
                for name in ("dense", "csr", "csc-unsorted"):
                    X = M.copy() if name == "dense" else fm[name].copy()
                    try:
                        t = InformationWeightTransformer(prior_strength=ps, approx_prior=approx, weight_power=power)
                        t.fit(X, y=None if target is None else np.array(target))
                        w = np.asarray(t.information_weights_, dtype=np.float64)
                    except Exception as e:
                        v.append(viol("transformer-exception:%s" % type(e).__name__, "fit(%s, y=%s) raised %r" % (name, target, e)))
                        continue
                    sup_degenerate = False
                    if target is not None and name == "csr" and power == 1.0:
                        canon = np.unique(np.array(target), return_inverse=True)[1].astype(np.int64)
                        sw = np.asarray(information_weight(fm[name].copy(), ps, approx, target=canon), dtype=np.float64)
                        # all class-level divergences are rounding noise: the mean-normalisation is 0/0 (outside the claim)
                        sup_degenerate = bool(np.all(np.abs(sw) < 1e-12)) or degenerate
                    if target is not None and name == "csr" and not sup_degenerate and power == 1.0:
                        # the supervised weight is the KL weight of the class-aggregated matrix: it depends on the PARTITION
                        # of the rows only, so any renaming of the class labels (non-contiguous, negative, unordered,
                        # strings) must learn the same weights - in particular finite where the canonical labels are
                        for rn, relabel in (("gaps", lambda c: 10 * c + 3), ("negative", lambda c: -7 * c - 2), ("reversed", lambda c: 100 - c), ("strings", lambda c: "k%d" % c)):
                            y2 = np.array([relabel(c) for c in target])
                            try:
                                t2 = InformationWeightTransformer(prior_strength=ps, approx_prior=approx, weight_power=power)
                                t2.fit(fm[name].copy(), y=y2)
                                w2 = np.asarray(t2.information_weights_, dtype=np.float64)
                            except Exception as e:
                                v.append(viol("relabel-exception:%s:%s" % (rn, type(e).__name__), "fit(y=%s) raised %r" % (y2.tolist(), e)))
                                continue
                            if not np.allclose(w2, w, rtol=1e-9, atol=1e-12, equal_nan=True):
                                v.append(viol("weights-depend-on-label-names:%s" % rn, "y=%s gives %s, y=%s gives %s (matrix %s)" % (target, w.tolist(), y2.tolist(), w2.tolist(), M.tolist())))
                    if not np.isfinite(w).all() or (w < 0).any():
                        if degenerate or target is not None or approx:
                            continue    # 0/0 mean-normalisation or empty class: outside the exact-prior claim
                        v.append(viol("transformer-weights-not-finite", "information_weights_ %s (matrix %s)" % (w.tolist(), M.tolist())))
                        continue
                    if not approx and target is None and not degenerate:
                        e2 = np.maximum(exp / exp.mean(), 0.0) ** power
                        if not np.allclose(w, e2, rtol=1e-8, atol=1e-12):
                            v.append(viol("transformer-weights", "information_weights_ %s, expected %s" % (w.tolist(), e2.tolist())))
                    X2 = M.copy() if name == "dense" else fm[name].copy()
                    Y = t.transform(X2)
                    Yd = Y.toarray() if sp.issparse(Y) else np.asarray(Y)
                    if not np.allclose(Yd, M * w[None, :], rtol=1e-12, atol=0):
                        v.append(viol("transform-not-column-scaling", "transform(X) != X @ diag(w)", observed=Yd.tolist(), expected=(M * w[None, :]).tolist()))
                    if ((Yd != 0) & (M == 0)).any():
                        v.append(viol("transform-creates-nonzero", "non-zero created where the input had none"))
                    A = sp.csr_matrix(M)
                    B = sp.csr_matrix(M[::-1] * 3.0)
                    lhs = t.transform(A + B).toarray()
                    rhs = t.transform(A).toarray() + t.transform(B).toarray()
                    if not np.allclose(lhs, rhs, rtol=1e-12, atol=0):
                        v.append(viol("transform-not-linear", "transform(A+B) != transform(A)+transform(B)"))
    profiles = {tuple(c / c.sum()) if c.sum() else None for c in M.T}
    nt = repr(case) if (M == 0).any() and len(profiles) > 1 else None
    return res(v, nt=nt, out="deg" if degenerate else "ok")


def _cases(tier, shapes):
    pss = [1e-4, 1.0] if tier == "quick" else [1e-4, 0.1, 1.0]
    for (r, c) in shapes:
        targets = [None, [0] * (r - 1) + [1], list(range(r))]
        entries = ENTRIES if r * c <= 6 else [0, 1, 5]      # 3x3: 3^9 matrices
        for ent in itertools.product(entries, repeat=r * c):
            M = np.array(ent).reshape(r, c)
            if M.sum() == 0:
                continue
            for ps in pss:
                yield {"M": M.tolist(), "ps": ps, "targets": targets}


def subchecks(tier, seed):
    shapes = [(2, 2), (2, 3), (3, 2)] if tier == "quick" else [(2, 2), (2, 3), (3, 2), (3, 3)]
    g1 = lambda: _cases(tier, shapes)
    g2 = lambda: _cases("quick", [(2, 2), (3, 2)][: 1 if tier == "quick" else 2])
    return [
        Sub("weights_I", "I", g1, run_case, total=sum(1 for _ in g1()),
            describe="all non-zero matrices of shapes %s over entries %s x prior_strength x formats x permutations x transformer settings" % (shapes, ENTRIES),
            nontrivial_rule="matrix has a zero entry and two differently distributed columns"),
        Sub("weights_N", "N", g2, run_case, total=sum(1 for _ in g2()),
            describe="compiled mode: all 2x2 (thorough also 3x2) matrices, same oracle", nontrivial_rule="as above"),
    ]
