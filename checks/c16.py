"""C16 - LZ compression rows count each string's own parse phrases."""
from __future__ import annotations

import itertools

import numpy as np

from vmc.core import Sub, res, viol
from vmc.inputs import sigma

PROPERTY = "C16"
LEVEL_TEXT = ("all corpora of 1-2 strings over a 2-letter alphabet up to length 6 (plus unicode) x max_dict_size x base_dictionary are run through the real "
              "vectorizer (unhashed, interpreted mode) and each row is compared with an independent Python parse; row independence, row totals, "
              "phrase->column consistency between fit_transform and transform (incl. unseen phrases) are asserted; hashed columns are explored in "
              "compiled mode: column budget, unchanged totals, and relabelling when the fitted hash is injective on the corpus substrings")
LEVEL_NOTE = "reference parse in the check; hashed paths cannot run interpreted (the murmur hash overflows NumPy-2 scalar arithmetic) and are decided in compiled mode"
TECHNIQUE = "bounded exhaustive input/configuration enumeration of the real code vs reference parse (explicit-state explorer)"
LEVEL = "exploration"
RULE = "complete product; non-trivial = some phrase is used more than once or the dictionary cap is reached"
ASSUMPTIONS = ["base_dictionary is combined only with max_columns=None (string keys cannot enter the hashed int32 dictionary)"]


def ref_parse(string, base, max_size):
    """Incremental LZ parse: extend the current phrase while it is in the dictionary (counting a use),
    otherwise add it (if the cap allows) and start a new phrase at this position."""
    d = dict(base or {})
    size = len(d)
    start = 0
    capped = False
    for end in range(len(string)):
        ph = string[start:end]
        if ph in d:
            d[ph] += 1
        elif size >= max_size:
            start = end
            capped = True
        else:
            d[ph] = 1
            size += 1
            start = end
    return d, capped


def rows_as_dicts(mat, col_to_label):
    m = mat.tocsr()
    out = []
    for i in range(m.shape[0]):
        r = {}
        for j, x in zip(m.indices[m.indptr[i]:m.indptr[i + 1]].tolist(), m.data[m.indptr[i]:m.indptr[i + 1]].tolist()):
            if x != 0:
                r[col_to_label[j]] = r.get(col_to_label[j], 0) + x
        out.append(r)
    return out


def run_plain(case):
    from vectorizers import LZCompressionVectorizer as LZ
    corpus, tests, mds, base = case["corpus"], case["tests"], case["max_dict_size"], case["base"]
    v = []
    try:
        est = LZ(max_dict_size=mds, max_columns=None, base_dictionary=base)
        mat = est.fit_transform(list(corpus))
    except Exception as e:
        return res([viol("fit-exception:%s" % type(e).__name__, "fit_transform raised %r" % (e,))], out="exc")
    cl = dict(est.column_label_dictionary_)
    inv = {j: p for p, j in cl.items()}
    refs = [ref_parse(s, base, mds) for s in corpus]
    want_cols = set()
    for d, _ in refs:
        want_cols |= set(d)
    nontriv = False
    if set(cl) != want_cols or sorted(cl.values()) != list(range(len(want_cols))):
        v.append(viol("columns", "column_label_dictionary_ %r, phrases of the corpus %r" % (cl, sorted(want_cols))))
        return res(v, out="cols")
    if mat.shape != (len(corpus), len(cl)):
        v.append(viol("shape", "fit_transform shape %s expected %s" % (mat.shape, (len(corpus), len(cl)))))
    else:
        for s, row, (d, capped) in zip(corpus, rows_as_dicts(mat, inv), refs):
            if row != {p: c for p, c in d.items() if c != 0}:
                v.append(viol("row-counts:fit_transform", "row of %r is %r, parse gives %r" % (s, row, d)))
                break
            if not capped and sum(row.values()) != len(s) + sum((base or {}).values()):
                v.append(viol("row-total", "row total %s for %r (length %d, base counts %d)" % (sum(row.values()), s, len(s), sum((base or {}).values()))))
            if capped or any(c > 1 for c in d.values()):
                nontriv = True
    # transform: own-string counts restricted to fitted phrases; unseen phrases ignored
    try:
        tm = est.transform(list(tests))
        if tm.shape != (len(tests), len(cl)):
            v.append(viol("transform-shape", "transform shape %s expected %s" % (tm.shape, (len(tests), len(cl)))))
        else:
            for s, row in zip(tests, rows_as_dicts(tm, inv)):
                d, _ = ref_parse(s, base, mds)
                w = {p: c for p, c in d.items() if p in cl and c != 0}
                if row != w:
                    unseen = any(p not in cl for p in d)
                    v.append(viol("row-counts:transform%s" % (":unseen-phrase" if unseen else ""), "transform row of %r is %r, expected %r (columns %r)" % (s, row, w, cl)))
                    break
    except Exception as e:
        v.append(viol("transform-exception:%s" % type(e).__name__, "transform(%s) raised %r" % (tests, e)))
    # row independence: the same string alone gives the same counts
    if len(corpus) == 2 and not v:
        for k in (0, 1):
            e2 = LZ(max_dict_size=mds, max_columns=None, base_dictionary=base)
            m2 = e2.fit_transform([corpus[k]])
            inv2 = {j: p for p, j in e2.column_label_dictionary_.items()}
            if rows_as_dicts(m2, inv2)[0] != rows_as_dicts(mat, inv)[k]:
                v.append(viol("row-depends-on-other-strings", "row of %r differs when fitted alone" % (corpus[k],)))
    return res(v, nt=repr(case) if nontriv else None, out="cols=%d" % min(len(cl), 9))


def _plain_cases(tier, alphabet="ab", L=None):
    L = L or (5 if tier == "quick" else 6)
    strings = sigma(alphabet, L)
    tests = sigma(alphabet, 3) + ["z", "azbz", alphabet[0] * 9, alphabet * 5]
    bases = [None, {alphabet[0]: 1, alphabet[1]: 1}, {"": 2}]
    for mds in (2, 3, 4, 65536):
        for base in bases:
            for s in strings:
                yield {"corpus": [s], "tests": tests, "max_dict_size": mds, "base": base}
            pool = sigma(alphabet, 3 if tier == "quick" else 4)
            for a, b in itertools.product(pool, repeat=2):
                yield {"corpus": [a, b], "tests": tests, "max_dict_size": mds, "base": base}


def run_hashed(case):
    from vectorizers import LZCompressionVectorizer as LZ
    corpus, tests, mds, mc, seed = case["corpus"], case["tests"], case["max_dict_size"], case["max_columns"], case["random_state"]
    v = []
    try:
        est = LZ(max_dict_size=mds, max_columns=mc, random_state=seed)
        mat = est.fit_transform(list(corpus))
        tm = est.transform(list(corpus) + list(tests))
    except Exception as e:
        return res([viol("hashed-exception:%s" % type(e).__name__, "raised %r" % (e,))], out="exc")
    ncols = len(est.column_label_dictionary_)
    if ncols > mc or mat.shape != (len(corpus), ncols):
        v.append(viol("hashed-column-budget", "%d columns with max_columns=%d, shape %s" % (ncols, mc, mat.shape)))
    if tm.shape != (len(corpus) + len(tests), ncols):
        v.append(viol("hashed-transform-shape", "transform shape %s expected %s" % (tm.shape, (len(corpus) + len(tests), ncols))))
    h = est.hash_function_
    # same phrase -> same column in fit_transform and transform: training rows re-transform identically
    if not v and (tm[: len(corpus)] != mat).nnz:
        v.append(viol("hashed-transform-differs-from-fit_transform", "training rows differ", observed=tm[: len(corpus)].toarray().tolist(), expected=mat.toarray().tolist()))
    # two fits with the same random_state agree
    est2 = LZ(max_dict_size=mds, max_columns=mc, random_state=seed)
    if (est2.fit_transform(list(corpus)) != mat).nnz:
        v.append(viol("hashed-not-reproducible", "two fits with random_state=%s differ" % seed))
    # injective on every substring the parse can test -> rows are the unhashed rows relabelled, totals unchanged
    subs = {s[i:j] for s in list(corpus) for i in range(len(s) + 1) for j in range(i, len(s) + 1)}
    hv = {p: int(h(p)) for p in subs}
    injective = len(set(hv.values())) == len(hv)
    for s, row in zip(corpus, mat.toarray()):
        d, capped = ref_parse(s, None, mds)
        if injective:
            w = np.zeros(ncols)
            for p, c in d.items():
                w[est.column_label_dictionary_[hv[p]]] += c
            if not np.array_equal(row, w):
                v.append(viol("hashed-row-not-relabelled-unhashed-row", "row of %r is %s, relabelled unhashed row %s" % (s, row.tolist(), w.tolist())))
                break
        if not capped and injective and row.sum() != len(s):
            v.append(viol("hashed-row-total", "row total %s for %r" % (row.sum(), s)))
    return res(v, nt=repr(case) if injective else None, out="injective" if injective else "collision")


def _hashed_cases(tier):
    corp = [["abab"], ["aab", "ba"], ["", "a"], ["bbbbb", "ab"]] if tier == "quick" else [[a, b] for a in sigma("ab", 2) for b in sigma("ab", 3)[7:]] + [["ababab"], [""]]
    tests = ["", "a", "ab", "zz", "abab"]
    for mc in ((2, 64) if tier == "quick" else (2, 3, 16, 65536)):
        for mds in ((3, 65536) if tier == "quick" else (2, 3, 4, 65536)):
            for seed in ((7,) if tier == "quick" else (7, 11)):
                for c in corp:
                    yield {"corpus": c, "tests": tests, "max_dict_size": mds, "max_columns": mc, "random_state": seed}


def subchecks(tier, seed):
    g1 = lambda: _plain_cases(tier)
    g2 = lambda: _plain_cases("quick", alphabet="é€", L=3)
    g3 = lambda: _hashed_cases(tier)
    g4 = lambda: (c for c in _plain_cases("quick", L=3) if c["max_dict_size"] in (3, 65536) and c["base"] is None and len(c["corpus"]) == 1)
    return [
        Sub("lz_plain", "I", g1, run_plain, total=sum(1 for _ in g1()),
            describe="corpora of 1-2 strings over {a,b} x max_dict_size{2,3,4,65536} x base_dictionary{None,{a,b},{''}}; transform on all strings <= 3, unseen characters, long repeats",
            nontrivial_rule="a phrase is used more than once or the cap is reached"),
        Sub("lz_unicode", "I", g2, run_plain, total=sum(1 for _ in g2()), describe="same over {e-acute, euro}", nontrivial_rule="as above"),
        Sub("lz_hashed", "N", g3, run_hashed, total=sum(1 for _ in g3()),
            describe="hashed columns (compiled): corpora x max_columns x max_dict_size x random_state; budget, totals, fit/transform agreement, relabelling when the fitted hash is injective on all corpus substrings",
            nontrivial_rule="fitted hash injective on the corpus substrings (relabelling oracle applies)"),
        Sub("lz_plain_compiled", "N", g4, run_plain, total=sum(1 for _ in g4()), describe="compiled-mode replay of single-string corpora (length <= 3)", nontrivial_rule="as above"),
    ]
