"""C03 - co-occurrence matrices equal the windowed, kernel-weighted count definition (n_iter = 0)."""
from __future__ import annotations

import itertools

import numpy as np

from vmc.core import Sub, res, viol
from vmc.inputs import sigma, product_dicts
from vmc.ref import cooc as R

PROPERTY = "C03"
LEVEL_TEXT = "every cell of the real estimator's output is compared with an independent float64 reference over complete products of small corpora and window/kernel settings; bounded-exhaustive, not a proof beyond the bounds"
LEVEL_NOTE = 'reference model vmc/ref/cooc.py (written from the property statement); interpreted-mode execution bound to compiled code by the token_compiled sub-check; float32 tolerance 1e-5'
TECHNIQUE = 'bounded exhaustive input enumeration of the real code vs reference model (explicit-state explorer, interpreted + compiled replay)'
LEVEL = "exploration"
RULE = ("complete products of small corpora x window/kernel/orientation settings, each executed on the real "
        "estimator and compared cell by cell (through the fitted label dictionaries) with an independent float64 "
        "reference; a case is non-trivial when the reference matrix has at least one non-zero cell")
ASSUMPTIONS = ["float32 accumulation: cells compared to 1e-5 relative",
               "variable-window cases whose exact radius lies within 1e-4 of a rounding boundary are counted as ambiguous and not asserted"]


def build_estimator(kind, cfg):
    import vectorizers as V
    cls = {"token": V.TokenCooccurrenceVectorizer, "timed": V.TimedTokenCooccurrenceVectorizer,
           "multiset": V.MultiSetCooccurrenceVectorizer, "ngram": V.NgramCooccurrenceVectorizer}[kind]
    nw = len(cfg["radii"])
    many = (lambda x: [x] * nw) if nw > 1 else (lambda x: x)
    kw = dict(window_radii=cfg["radii"], window_orientations=cfg["orient"], kernel_functions=many(cfg["kernel"]),
              normalize_windows=cfg["normwin"], window_functions=many(cfg.get("wfun", "fixed")))
    if cfg.get("kargs"):
        kw["kernel_args"] = cfg["kargs"]
    if cfg.get("wargs"):
        kw["window_args"] = cfg["wargs"]
    if cfg.get("mix"):
        kw["mix_weights"] = cfg["mix"]
    if kind == "ngram":
        kw["ngram_size"] = cfg.get("ngram", 2)
    for k in ("n_threads", "coo_initial_memory", "n_iter", "epsilon", "mask_string", "nullify_mask",
              "min_occurrences", "excluded_tokens", "excluded_token_regex", "max_unique_tokens", "token_dictionary"):
        if k in cfg:
            kw[k] = cfg[k]
    return cls(**kw)


def make_corpus(kind, docs, times=None):
    if kind in ("token", "ngram"):
        return [list(d) for d in docs]
    if kind == "timed":
        return [[(ch, float(t)) for ch, t in zip(d, ts)] for d, ts in zip(docs, times)]
    if kind == "multiset":
        # a document "ab|c||a" is a list of multisets
        return [[list(m) for m in d.split("|")] for d in docs]
    raise ValueError(kind)


def reference(kind, corpus, cfg, **extra):
    wins = R.expand_windows(cfg["radii"], cfg["orient"], cfg["kernel"], cfg.get("kargs"), cfg.get("mix"),
                            cfg.get("wfun", "fixed"), cfg.get("wargs"))
    if kind == "multiset":
        return R.multiset_cooccurrence(corpus, wins, cfg["normwin"], **extra)
    return R.token_cooccurrence(corpus, wins, cfg["normwin"], timed=(kind == "timed"),
                                ngram_size=cfg.get("ngram", 2) if kind == "ngram" else 1, **extra)


def est_cells(est, mat, kind):
    if kind == "ngram":
        rows = {v: k for k, v in est.ngram_label_dictionary_.items()}
    else:
        rows = est.token_index_dictionary_
    return R.matrix_to_cells(mat, rows, est.column_index_dictionary_)


def n_tokens(kind, corpus):
    if kind == "multiset":
        return sum(len(m) for d in corpus for m in d)
    return sum(len(d) for d in corpus)


def run_case(case):
    kind, cfg, docs = case["kind"], case["cfg"], case["docs"]
    corpus = make_corpus(kind, docs, case.get("times"))
    try:
        exp, rows, labels, amb = reference(kind, corpus, cfg)
    except ZeroDivisionError:
        return res(rej=True, out="ref-undefined")
    if amb:
        return res(amb=True, out="ambiguous-radius")
    est = build_estimator(kind, cfg)
    try:
        mat = est.fit_transform(corpus)
    except ValueError as e:
        if n_tokens(kind, corpus) == 0 or (kind == "ngram" and not rows):
            return res(rej=True, out="rejected-empty")
        return res([viol("exception:ValueError", "fit_transform raised %r" % (e,))], out="exc")
    except Exception as e:
        return res([viol("exception:%s" % type(e).__name__, "fit_transform raised %r" % (e,))], out="exc")
    v = []
    n_blocks = len(R.expand_windows(cfg["radii"], cfg["orient"], cfg["kernel"]))
    if mat.shape != (len(rows), len(labels) * n_blocks):
        v.append(viol("shape", "shape %s, expected %s" % (mat.shape, (len(rows), len(labels) * n_blocks))))
    else:
        got = est_cells(est, mat, kind)
        bad = R.compare_cells(got, exp)
        if bad:
            v.append(viol(classify(kind, cfg, bad, case), "cells differ from the definition: (cell, got, expected) = %s" % (bad,),
                          observed=sorted(got.items(), key=repr), expected=sorted(exp.items(), key=repr)))
    return res(v, nt=(kind, tuple(docs), repr(cfg), repr(case.get("times"))) if exp else None, out="cells=%d" % min(len(exp), 9))


def classify(kind, cfg, bad, case):
    feats = [kind]
    if all(g == 0 for _, g, e in bad):
        feats.append("cells-lost")
    elif all(e == 0 for _, g, e in bad):
        feats.append("cells-spurious")
    else:
        feats.append("cells-wrong")
    if case.get("origin"):
        feats.append("time-origin>0")
    if case.get("scale", 1.0) != 1.0:
        feats.append("time-scale!=1")
    if cfg.get("wfun", "fixed") != "fixed":
        feats.append("variable-window")
    if cfg.get("kargs"):
        ka = cfg["kargs"] if isinstance(cfg["kargs"], dict) else cfg["kargs"][0]
        for k in sorted(ka):
            feats.append("karg-" + k)
    return ":".join(feats)


# ------------------------------------------------------------------ spaces

LATTICE = list(product_dicts(radii=[[1], [2], [5]], kernel=["flat", "harmonic", "geometric"],
                             orient=["after", "before", "directional"], normwin=[False, True]))
VARIANTS = [
    dict(radii=[2], kernel="flat", orient="directional", normwin=False, wfun="variable"),
    dict(radii=[3], kernel="harmonic", orient="after", normwin=True, wfun="variable"),
    dict(radii=[2], kernel="flat", orient="directional", normwin=False, wfun="variable", wargs={"power": 0.5}),
    dict(radii=[2], kernel="harmonic", orient="directional", normwin=False, kargs={"normalize": True}),
    dict(radii=[2], kernel="flat", orient="after", normwin=True, kargs={"offset": 1}),
    dict(radii=[3], kernel="harmonic", orient="directional", normwin=False, kargs={"offset": 1, "normalize": True}),
    dict(radii=[2], kernel="geometric", orient="directional", normwin=False, kargs={"power": 0.5}),
    # offsets larger than 1 (and larger than windows clipped by the sequence ends)
    dict(radii=[3], kernel="flat", orient="directional", normwin=False, kargs={"offset": 2}),
    dict(radii=[3], kernel="geometric", orient="after", normwin=True, kargs={"offset": 3, "normalize": True}),
    dict(radii=[2], kernel="harmonic", orient="before", normwin=False, kargs={"offset": 2}),
    dict(radii=[1, 2], kernel="flat", orient=["after", "before"], normwin=False, mix=[2.0, 1.0]),
    dict(radii=[1, 2], kernel="harmonic", orient=["directional", "after"], normwin=True, mix=[2.0, 1.0]),
    dict(radii=[2, 1], kernel="geometric", orient=["before", "directional"], normwin=True),
    # every remaining ordered pair of orientations, and triples: the column blocks (two for a directional window, one
    # otherwise) and their labels pre_<window>_<token> / post_<window>_<token> are numbered by USER-LEVEL window
    dict(radii=[1, 2], kernel="flat", orient=["directional", "before"], normwin=False),
    dict(radii=[2, 1], kernel="flat", orient=["before", "after"], normwin=False, mix=[1.0, 3.0]),
    dict(radii=[1, 2], kernel="harmonic", orient=["after", "after"], normwin=False),
    dict(radii=[1, 2], kernel="flat", orient=["before", "before"], normwin=True),
    dict(radii=[1, 2], kernel="flat", orient=["directional", "directional"], normwin=False),
    dict(radii=[2, 1], kernel="harmonic", orient=["after", "directional"], normwin=False),
    dict(radii=[1, 2, 1], kernel="flat", orient=["directional", "before", "after"], normwin=False, mix=[1.0, 2.0, 4.0]),
    dict(radii=[2, 1, 2], kernel="flat", orient=["after", "directional", "before"], normwin=True),
    # kernel arguments given PER WINDOW (a list of dicts): an option set for one window only must not reach the others
    dict(radii=[2, 2], kernel="flat", orient=["after", "after"], normwin=False, kargs=[{"offset": 1}, {}]),
    dict(radii=[2, 3], kernel="harmonic", orient=["after", "before"], normwin=False, kargs=[{"normalize": True}, {}]),
    dict(radii=[2, 2], kernel="flat", orient=["directional", "after"], normwin=False, kargs=[{}, {"offset": 1}]),
    dict(radii=[3, 2, 2], kernel="harmonic", orient=["before", "after", "after"], normwin=True, kargs=[{"offset": 2}, {"normalize": True}, {}]),
]
TIMED_CFGS = [c for c in product_dicts(radii=[[1], [2]], kernel=["flat", "geometric"],
                                       orient=["after", "directional"], normwin=[False, True])] + [
    dict(radii=[2], kernel="geometric", orient="before", normwin=False, kargs={"power": 0.5}),
    dict(radii=[2], kernel="geometric", orient="directional", normwin=True, kargs={"normalize": True}),
]
MULTI_CFGS = list(product_dicts(radii=[[1], [2]], kernel=["flat", "geometric"],
                                orient=["after", "before", "directional"], normwin=[False, True])) + [
    dict(radii=[1], kernel="geometric", orient="directional", normwin=False, kargs={"power": 0.5}),
    dict(radii=[1], kernel="flat", orient="after", normwin=False, kargs={"normalize": True}),
]
ORIGINS = [0.0, 1e3, 2.0 ** 24 + 1, 1.6e9, 1e12]
SCALES = [1e-7, 1e-3, 1e6]      # the unit of the time axis: weights depend on differences relative to the mean gap only
GAPS = [(1, 1, 1), (1, 3, 1), (0, 2, 1), (2, 0.5, 3)]


def _token_cases(tier, kind="token", cfgs=None, alphabet="abc", maxlen=3, ndocs=2):
    docs = sigma(alphabet, maxlen)
    for cfg in (cfgs or LATTICE):
        for d in itertools.product(docs, repeat=ndocs):
            yield {"kind": kind, "cfg": cfg, "docs": list(d)}


def _timed_cases(tier):
    docs = sigma("ab", 3) if tier == "quick" else sigma("abc", 3)
    for cfg in TIMED_CFGS:
        for d in itertools.product(docs, repeat=2):
            for gaps in GAPS:
                for origin, scale in [(o, 1.0) for o in ORIGINS] + [(0.0, sc) for sc in SCALES]:
                    times = []
                    for doc in d:
                        t, ts = origin, []
                        for i in range(len(doc)):
                            ts.append(t)
                            t += gaps[i % len(gaps)] * scale
                        times.append(ts)
                    yield {"kind": "timed", "cfg": cfg, "docs": list(d), "times": times, "origin": origin, "scale": scale}


def _multiset_docs(tier):
    # documents of up to 3 multisets, each of <= 2 tokens over {a,b}; written "ab|b|a"
    msets = ["", "a", "b", "ab", "aa"] if tier == "quick" else ["", "a", "b", "c", "ab", "aa", "abc"]
    out = []
    for n in (1, 2, 3):
        for t in itertools.product(msets, repeat=n):
            out.append("|".join(t))
    return out


def _multiset_cases(tier):
    docs = _multiset_docs(tier)
    for cfg in MULTI_CFGS:
        for d in docs:
            yield {"kind": "multiset", "cfg": cfg, "docs": [d]}
        for d in itertools.product(docs[:31], repeat=2):
            yield {"kind": "multiset", "cfg": cfg, "docs": list(d)}


def _ngram_cases(tier):
    docs = sigma("ab", 4) if tier == "quick" else sigma("abc", 4)
    cfgs = [dict(c, ngram=n) for n in (1, 2, 3) for c in LATTICE if c["radii"] != [5] and c["kernel"] != "geometric"]
    cfgs += [dict(radii=[2], kernel="harmonic", orient="directional", normwin=True, wfun="variable", ngram=2)]
    for cfg in cfgs:
        for d in itertools.product(docs, repeat=2):
            yield {"kind": "ngram", "cfg": cfg, "docs": list(d)}


def _count(gen):
    return sum(1 for _ in gen)


def subchecks(tier, seed):
    subs = []
    ml = 3 if tier == "quick" else 4
    mk = lambda f, *a, **k: (lambda: f(*a, **k))
    spaces = [
        ("token_lattice", "I", mk(_token_cases, tier, "token", LATTICE, "abc", ml, 2),
         "ordered pairs over Sigma_3<=%d x radius{1,2,5} x kernel x3 x orientation x3 x normalize_windows x2" % ml),
        ("token_variants", "I", mk(_token_cases, tier, "token", VARIANTS, "abc", 3, 2),
         "ordered pairs over Sigma_3<=3 x one-factor variants (variable window, power, kernel normalize, offset, power, mix weights, two windows)"),
        ("token_triples", "I", mk(_token_cases, tier, "token", LATTICE[::5] + VARIANTS[:2], "ab", 2 if tier == "quick" else 3, 3),
         "ordered triples over Sigma_2 x every 5th lattice point + variable windows"),
        ("timed", "I", mk(_timed_cases, tier), "pairs over Sigma_2<=3 x timed cfgs x gap patterns x time origins {0,1e3,2^24+1,1.6e9,1e12}"),
        ("multiset", "I", mk(_multiset_cases, tier), "documents of <=3 multisets (<=2 tokens each), singles and pairs x multiset cfgs"),
        ("ngram_rows", "I", mk(_ngram_cases, tier), "pairs over Sigma_2<=4 x ngram_size{1,2,3} x lattice (radius 1,2; flat,harmonic)"),
        ("token_compiled", "N", mk(_token_cases, tier, "token", LATTICE[::4] + VARIANTS[:1] + VARIANTS[4:5], "ab", 3, 2),
         "conformance: pairs over Sigma_2<=3 x every 4th lattice point, compiled mode, same oracle"),
        ("timed_compiled", "N", (lambda: (c for i, c in enumerate(_timed_cases("quick")) if i % 23 == 0)),
         "conformance: every 23rd timed case (incl. empty sequences and large time origins), compiled mode"),
        ("multiset_compiled", "N", (lambda: (c for i, c in enumerate(_multiset_cases("quick")) if i % 11 == 0)),
         "conformance: every 11th multiset case, compiled mode"),
    ]
    for name, mode, gen, desc in spaces:
        subs.append(Sub(name, mode, gen, run_case, describe=desc, total=_count(gen()),
                        nontrivial_rule="reference matrix has a non-zero cell"))
    return subs
