"""C12 - each output row depends only on its own input item and the fitted model."""
from __future__ import annotations

import itertools
import math

import numpy as np

from vmc.core import Sub, res, viol
from vmc import estimators as E

PROPERTY = "C12"
LEVEL_TEXT = ("for every row-wise estimator x configuration x training set, a model is fitted once and then ALL batches over a pool of items "
              "(empty item, item with unseen vocabulary, long item, duplicates) up to length 3 and all permutations of a 4-item batch are "
              "transformed; every row must equal the row the item gets when transformed alone (which implies concatenation, permutation "
              "equivariance and duplicate rows), for every internal block/chunk size; parallel loops (numba.prange) are run in every iteration "
              "order (all n! for n <= 4, six representative orders above)")
LEVEL_NOTE = "differential oracle (single-item transform on the same fitted model); loop-schedule exploration is at iteration granularity in interpreted mode; compiled mode replays the batch space with the default schedule"
TECHNIQUE = "explicit enumeration of batchings and of parallel-loop iteration orders on the real code (explicit-state explorer, controlled prange replacement)"
LEVEL = "model_checking"
RULE = "all batches / all loop orders; non-trivial = batch with at least two distinct items"
MC_NOTE = ("states = (fitted model, batch) pairs whose rows were compared with the single-item rows; transitions = transform calls executed; "
           "loop schedules = iteration orders substituted for numba.prange")
ASSUMPTIONS = ["interleavings finer than one prange iteration are not explored (compiled nogil code is outside a cooperative scheduler's reach)"]

_FITTED = {}


def fitted(spec, cfg_i, train_i, tier):
    key = (spec.name, cfg_i, train_i)
    if key not in _FITTED:
        cfg = spec.configs(tier)[cfg_i]
        est = spec.make(cfg)
        E.fit(spec, est, spec.train_sets(cfg, tier)[train_i], cfg)
        pool = spec.pool(cfg, tier)
        singles = []
        for it in pool:
            out = E.transform(spec, est, [it], cfg)
            singles.append(spec.rows(out, 1)[0])
        _FITTED[key] = (est, cfg, pool, singles)
    return _FITTED[key]


def run_batch(case):
    spec = E.BY_NAME[case["spec"]]
    try:
        est, cfg, pool, singles = fitted(spec, case["cfg"], case["train"], case["tier"])
    except Exception as e:
        return res([viol("fit-exception:%s:%s" % (spec.name, type(e).__name__), "fit / single-item transform raised %r" % (e,))], out="exc")
    idx = case["batch"]
    items = [pool[i] for i in idx]
    v = []
    try:
        out = E.transform(spec, est, items, cfg)
        rows = spec.rows(out, len(items))
    except Exception as e:
        return res([viol("batch-exception:%s:%s" % (spec.name, type(e).__name__), "transform of batch %s raised %r" % (items, e))], out="exc", tr=1)
    if len(rows) != len(items):
        v.append(viol("row-count:%s" % spec.name, "%d rows for %d items" % (len(rows), len(items))))
    else:
        for k, (i, r) in enumerate(zip(idx, rows)):
            if not spec.same(r, singles[i]):
                far = ":far-support-in-chunk" if (spec.name == "sinkhorn_far" and 0 in idx and cfg.get("chunk_size", 32) > 1) else ""
                v.append(viol("row-depends-on-batch:%s%s" % (spec.name, far),
                              "item %r at position %d of batch %s gets %s, alone it gets %s (cfg %s)" % (pool[i], k, items, np.asarray(r).tolist(), np.asarray(singles[i]).tolist(), cfg)))
                break
    return res(v, nt=(case["spec"], case["cfg"], case["train"], tuple(idx)) if len(set(idx)) > 1 else None, out=spec.name, st=1, tr=1)


def _batch_cases(tier, specs, maxlen=3):
    for spec in specs:
        for ci, cfg in enumerate(spec.configs(tier)):
            for ti in range(len(spec.train_sets(cfg, tier))):
                n = len(spec.pool(cfg, tier))
                for L in range(1, maxlen + 1):
                    for b in itertools.product(range(n), repeat=L):
                        yield {"spec": spec.name, "cfg": ci, "train": ti, "batch": list(b), "tier": tier}
                for p in itertools.permutations(range(min(n, 4 if tier == "quick" else 5))):
                    yield {"spec": spec.name, "cfg": ci, "train": ti, "batch": list(p), "tier": tier}


def run_large_batch(case):
    """batches longer than the internal chunk sizes (LOT kernels work in chunks of max(256, block_size // 64) rows):
    pool items cycled to `size` rows; every row must equal its single-item row"""
    spec = E.BY_NAME[case["spec"]]
    try:
        est, cfg, pool, singles = fitted(spec, case["cfg"], case["train"], case["tier"])
    except Exception as e:
        return res([viol("fit-exception:%s:%s" % (spec.name, type(e).__name__), "raised %r" % (e,))], out="exc")
    n = case["size"]
    idx = [(i * 7 + i // len(pool)) % len(pool) for i in range(n)]
    items = [pool[i] for i in idx]
    try:
        rows = spec.rows(E.transform(spec, est, items, cfg), n)
    except Exception as e:
        return res([viol("batch-exception:%s:%s" % (spec.name, type(e).__name__), "transform of a %d-item batch raised %r" % (n, e))], out="exc", tr=1)
    v = []
    if len(rows) != n:
        v.append(viol("row-count:%s" % spec.name, "%d rows for %d items" % (len(rows), n)))
    else:
        bad = [k for k, (i, r) in enumerate(zip(idx, rows)) if not spec.same(r, singles[i])]
        if bad:
            v.append(viol("row-depends-on-batch-position:%s" % spec.name, "in a batch of %d items, rows %s (of %d wrong) differ from the single-item rows (cfg %s)" % (n, bad[:6], len(bad), cfg)))
    return res(v, nt=(case["spec"], case["cfg"], n), out=spec.name, st=1, tr=1)


def _large_cases(tier):
    sizes = (255, 256, 257, 300, 513) if tier == "quick" else (255, 256, 257, 300, 511, 512, 513, 1025)
    for spec in E.ROW_WISE:
        heavy = spec.name in ("wasserstein", "wasserstein_lil", "sinkhorn")
        for ci, cfg in enumerate(spec.configs(tier)):
            for n in (sizes if heavy else sizes[2:4]):
                yield {"spec": spec.name, "cfg": ci, "train": 0, "size": n, "tier": tier}


# ---------------------------------------------------------------- prange orders

def orders(n):
    if n <= 4:
        return [list(p) for p in itertools.permutations(range(n))]
    ident = list(range(n))
    return [ident, ident[::-1], ident[::2] + ident[1::2], ident[1:] + ident[:1], ident[n // 2:] + ident[: n // 2],
            sorted(ident, key=lambda i: abs(i - n // 2))]


class PrangeOrder:
    """replacement for numba.prange in interpreted mode: the k-th order of the iteration space"""

    def __init__(self, k):
        self.k = k
        self.calls = 0
        self.max_n = 0

    def __call__(self, *args):
        idx = list(range(*args))
        self.calls += 1
        self.max_n = max(self.max_n, len(idx))
        if len(idx) <= 1:
            return idx
        o = orders(len(idx))
        return [idx[i] for i in o[self.k % len(o)]]


def run_prange(case):
    import numba
    spec = E.BY_NAME[case["spec"]]
    try:
        est, cfg, pool, singles = fitted(spec, case["cfg"], case["train"], case["tier"])
    except Exception as e:
        return res([viol("fit-exception:%s:%s" % (spec.name, type(e).__name__), "raised %r" % (e,))], out="exc")
    items = [pool[i] for i in case["batch"]]
    base = spec.rows(E.transform(spec, est, items, cfg), len(items))
    pr = PrangeOrder(case["order"])
    saved = numba.prange
    numba.prange = pr
    try:
        out = spec.rows(E.transform(spec, est, items, cfg), len(items))
    except Exception as e:
        return res([viol("prange-exception:%s:%s" % (spec.name, type(e).__name__), "order %d raised %r" % (case["order"], e))], out="exc")
    finally:
        numba.prange = saved
    v = []
    for k, (a, b) in enumerate(zip(out, base)):
        if not spec.same(a, b):
            v.append(viol("loop-order-dependent:%s" % spec.name, "iteration order %d changes row %d: %s vs %s" % (case["order"], k, np.asarray(a).tolist(), np.asarray(b).tolist())))
            break
    return res(v, nt=(case["spec"], case["cfg"], tuple(case["batch"]), case["order"]) if pr.calls and pr.max_n > 1 else None,
               out="prange-calls=%d" % min(pr.calls, 3), st=1, tr=1)


PRANGE_SPECS = ["bpe", "wasserstein", "sinkhorn", "info_weight"]


def _prange_cases(tier):
    for name in PRANGE_SPECS:
        spec = E.BY_NAME[name]
        for ci, cfg in enumerate(spec.configs(tier)):
            n = len(spec.pool(cfg, tier))
            # incl. adjacent duplicates: an iteration that reuses what its predecessor wrote is only right in sequential order
            batches = [list(range(min(n, 4))), [0, 1, 2][:n], [n - 1, 0], [1, 1, 2, 2][: max(2, min(n, 4))]]
            for b in batches:
                for k in range(24):
                    yield {"spec": name, "cfg": ci, "train": 0, "batch": b, "order": k, "tier": tier}


def run_fit_prange(case):
    """fit-time loops: information_weight / column_weights under every column order"""
    import numba
    from vectorizers.transformers.info_weight import information_weight
    import scipy.sparse as sp
    M = sp.csr_matrix(np.array(case["M"], dtype=np.float64))
    base = information_weight(M, 0.1, case["approx"])
    pr = PrangeOrder(case["order"])
    saved = numba.prange
    numba.prange = pr
    try:
        w = information_weight(M, 0.1, case["approx"])
    finally:
        numba.prange = saved
    v = []
    if not np.allclose(w, base, rtol=1e-12, atol=0):
        v.append(viol("loop-order-dependent:information_weight", "column order %d: %s vs %s" % (case["order"], w.tolist(), base.tolist())))
    return res(v, nt=repr(case), out="ok", st=1, tr=1)


def _fit_prange_cases(tier):
    for M in ([[1, 0, 2], [0, 3, 1], [2, 2, 0]], [[1, 0, 2, 5], [0, 3, 1, 0]], [[1, 2], [3, 4], [0, 6]]):
        for approx in (False, True):
            for k in range(24):
                yield {"M": M, "approx": approx, "order": k}


def subchecks(tier, seed):
    interp = [s for s in E.ROW_WISE] + E.EXTRA
    g1 = lambda: _batch_cases(tier, interp, 3 if tier == "quick" else 4)
    g2 = lambda: _prange_cases(tier)
    g3 = lambda: _fit_prange_cases(tier)
    comp_specs = [E.BY_NAME[n] for n in ("bpe", "lz_hashed", "wasserstein", "sinkhorn", "info_weight", "row_denoise", "ngram")]
    g4 = lambda: (c for c in _batch_cases("quick", comp_specs, 2) if c["cfg"] <= 1 and c["train"] == 0)
    return [
        Sub("batchings", "I", g1, run_batch, total=sum(1 for _ in g1()), kind="states",
            describe="every row-wise estimator x configuration x training set x all batches of length <= 3(4) over the item pool + all permutations of 4 items; oracle = single-item transform",
            nontrivial_rule="batch with at least two distinct items", shards=48),
        Sub("large_batches", "I", (lambda: _large_cases(tier)), run_large_batch, total=sum(1 for _ in _large_cases(tier)), kind="states",
            describe="batches of 255/256/257/300/513 rows (pool items cycled) for the Wasserstein family - on both sides of the kernels' internal chunk size of 256 rows - and of 257/300 rows for every other row-wise estimator",
            nontrivial_rule="every case"),
        Sub("prange_orders", "I", g2, run_prange, total=sum(1 for _ in g2()), kind="schedules",
            describe="bpe / wasserstein / sinkhorn / info_weight transforms with numba.prange replaced by every iteration order (24 orders per batch)",
            nontrivial_rule="a prange loop with more than one iteration was actually reordered"),
        Sub("fit_prange_orders", "I", g3, run_fit_prange, total=sum(1 for _ in g3()), kind="schedules",
            describe="information_weight column loop under all column orders", nontrivial_rule="every case"),
        Sub("batchings_compiled", "N", g4, run_batch, total=sum(1 for _ in g4()), kind="states",
            describe="compiled mode (default schedule, NUMBA_NUM_THREADS=2): batches of length <= 2 for bpe, hashed lz, wasserstein, sinkhorn, info_weight, row_denoise, ngram",
            nontrivial_rule="as above"),
    ]
