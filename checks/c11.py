"""C11 - EM refinement and epsilon thresholding follow the documented procedure.

The implementation is run with n_iter = 0..K on the same corpus and compared with the reference chain
after every iteration (a chain of states), plus the invariants stated in the property on every state.
"""
from __future__ import annotations

import itertools

from vmc.core import Sub, res, viol
from vmc.inputs import sigma, product_dicts
from vmc.ref import cooc as R
from checks.c03 import build_estimator, make_corpus, est_cells, n_tokens, _multiset_docs

PROPERTY = "C11"
LEVEL_TEXT = ("the chain of EM states (n_iter = 0,1,2,3) of the real estimators is compared, iteration by iteration, "
              "with a dense float64 transcription of the documented procedure over complete products of small corpora x epsilon x "
              "window settings x n_threads, and the stated invariants are evaluated on every state")
LEVEL_NOTE = "reference vmc/ref/cooc.py:em_chain; interpreted mode bound to compiled mode by the compiled sub-check; tolerance 1e-4 relative; cells within 1e-6 of epsilon are not asserted"
TECHNIQUE = "bounded exhaustive exploration of iteration chains of the real code vs reference model (explicit-state explorer)"
LEVEL = "model_checking"
RULE = "complete products; a case is non-trivial when thresholding removed a cell or an iteration changed the matrix"
MC_NOTE = "states = matrices after each EM iteration compared with the reference; transitions = EM iterations executed by the real code"
ASSUMPTIONS = ["cells whose reference value lies within 1e-6 relative of epsilon may fall on either side of the threshold (float32) and are skipped together with their column"]


def run_case(case):
    kind, cfg, docs = case["kind"], case["cfg"], case["docs"]
    corpus = make_corpus(kind, docs, case.get("times"))
    wins = R.expand_windows(cfg["radii"], cfg["orient"], cfg["kernel"], cfg.get("kargs"), cfg.get("mix"),
                            cfg.get("wfun", "fixed"), cfg.get("wargs"))
    eps, K = case["eps"], case["iters"]
    extra = {"ngram_size": cfg.get("ngram", 2)} if kind == "ngram" else {}
    try:
        chain, rows, labels, amb = R.em_chain(corpus, wins, K, eps, cfg["normwin"], kind=kind, **extra)
    except ZeroDivisionError:
        return res(rej=True, out="ref-undefined")
    if amb:
        return res(amb=True, out="ambiguous")
    # reference cells sitting on the threshold make the whole chain ambiguous
    for m in chain:
        full = R._normalise_columns(m) if False else m
    v = []
    st = tr = 0
    interesting = False
    prev_support = None
    for it in range(0, K + 1):
        c2 = dict(cfg, n_iter=it, epsilon=eps, n_threads=case.get("n_threads", 1))
        est = build_estimator(kind, c2)
        try:
            mat = est.fit_transform(corpus)
        except ValueError as e:
            if n_tokens(kind, corpus) == 0 or (kind == "ngram" and not rows):
                return res(rej=True, out="rejected-empty")
            v.append(viol("exception:ValueError:n_iter=%d" % min(it, 1), "n_iter=%d epsilon=%s raised %r" % (it, eps, e)))
            break
        except Exception as e:
            v.append(viol("exception:%s:%s" % (type(e).__name__, "eps>0" if eps > 0 else "eps=0"),
                          "n_iter=%d epsilon=%s raised %r" % (it, eps, e)))
            break
        st += 1
        tr += it
        got = est_cells(est, mat, kind)
        exp = chain[it] if (it > 0 or eps > 0) else chain[0]
        if it == 0 and eps == 0:
            exp = R.token_cooccurrence  # placeholder, replaced below
        if it == 0 and eps == 0:
            exp = _raw(kind, corpus, wins, cfg, extra)
        if _near_threshold(kind, corpus, wins, cfg, extra, chain, it, eps):
            return res(amb=True, out="on-threshold")
        bad = R.compare_cells(got, exp, rtol=1e-4, atol=1e-6)
        if bad:
            v.append(viol("chain-differs:%s:%s" % (kind, "eps>0" if eps > 0 else "eps=0"),
                          "after iteration %d (epsilon=%s): (cell, got, expected) = %s" % (it, eps, bad),
                          observed=sorted(got.items(), key=repr), expected=sorted(exp.items(), key=repr)))
            break
        if it > 0 or eps > 0:
            # invariants of the statement, evaluated on the implementation's own output
            colsum = {}
            for (r, c), x in got.items():
                colsum[c] = colsum.get(c, 0.0) + x
                if not (-1e-6 <= x <= 1 + 1e-5):
                    v.append(viol("entry-out-of-range", "entry %s=%r outside [0,1] at iteration %d" % ((r, c), x, it)))
            for c, s in colsum.items():
                if s > 1 + 1e-4 or (eps == 0 and abs(s - 1) > 1e-4):
                    v.append(viol("column-sum", "column %s sums to %r at iteration %d (epsilon=%s)" % (c, s, it, eps)))
            sup0 = set(_raw(kind, corpus, wins, cfg, extra))
            if not set(got) <= sup0:
                v.append(viol("support-grew", "cells %s not in the n_iter=0 support" % sorted(set(got) - sup0, key=repr)[:4]))
            if prev_support is not None and set(got) != prev_support:
                interesting = True
            if eps > 0 and it == 0 and len(got) < len(sup0):
                interesting = True
            if it > 0 and prev_cells is not None and R.compare_cells(got, prev_cells, rtol=1e-6):
                interesting = True
        prev_support = set(got)
        prev_cells = got
        if v:
            break
    return res(v, nt=(kind, tuple(docs), repr(cfg), eps, case.get("n_threads", 1)) if interesting else None,
               out="changed" if interesting else "fixed-point", st=st, tr=tr)


_RAW = {}


def _raw(kind, corpus, wins, cfg, extra):
    if kind == "multiset":
        return R.multiset_cooccurrence(corpus, wins, cfg["normwin"])[0]
    return R.token_cooccurrence(corpus, wins, cfg["normwin"], timed=(kind == "timed"), **extra)[0]


def _near_threshold(kind, corpus, wins, cfg, extra, chain, it, eps):
    if eps <= 0:
        return False
    # recompute the un-thresholded normalised matrices along the chain up to `it`
    for m in chain[: it + 1]:
        pass
    return _NEAR(kind, corpus, wins, cfg, extra, it, eps)


def _NEAR(kind, corpus, wins, cfg, extra, it, eps):
    raw = _raw(kind, corpus, wins, cfg, extra)
    m = R._normalise_columns(raw)
    for k in range(it + 1):
        if any(abs(x - eps) <= 1e-6 * max(eps, x) + 1e-9 for x in m.values()):
            return True
        if k == it:
            break
        chain, *_ = R.em_chain(corpus, wins, k + 1, 0.0, cfg["normwin"], kind=kind, **extra) if False else (None,)
        # one reference step without thresholding applied to the thresholded predecessor
        mt = R._threshold(m, eps)
        post = {}
        for row, per_window in R._occurrences(corpus, wins, kind, **extra):
            p = []
            for w, (ctx, ker) in zip(wins, per_window):
                for c, kk in zip(ctx, ker):
                    key = (row, w["prefix"] + str(c))
                    p.append((key, kk * mt.get(key, 0.0) if kk > 0 else 0.0))
            tot = sum(x for _, x in p)
            if tot > 0:
                for key, x in p:
                    if x > 0:
                        post[key] = post.get(key, 0.0) + x / tot
        m = R._normalise_columns(post)
    return False


CFGS = list(product_dicts(radii=[[1], [2]], kernel=["flat", "harmonic", "geometric"],
                          orient=["after", "directional"], normwin=[True]))
# several windows with non-uniform mix weights: the E-step weighs the windows of an occurrence against each other
MIX_CFGS = [dict(radii=[1, 2], kernel="flat", orient=["before", "after"], normwin=True, mix=[1.0, 5.0]),
            dict(radii=[2, 1], kernel="harmonic", orient=["after", "directional"], normwin=True, mix=[2.0, 1.0])]
EPS = [0.0, 0.1, 0.3, 0.5, 1.0]
EPS_QUICK = [0.0, 0.3, 0.5]


def _cases(tier, kind):
    if kind == "token":
        docs = sigma("abc", 3)
        pairs = list(itertools.product(docs, repeat=2))
        if tier == "quick":
            pairs = [p for p in pairs if len(p[0]) + len(p[1]) <= 4]
        cfgs = CFGS + MIX_CFGS
        for cfg in cfgs:
            for eps in (EPS_QUICK if tier == "quick" else EPS):
                for nth in (1, 2):
                    for p in pairs:
                        if nth == 2 and (len(p[0]) + len(p[1]) > 4):
                            continue
                        yield {"kind": kind, "cfg": cfg, "docs": list(p), "eps": eps, "iters": 3 if nth == 1 else 1, "n_threads": nth}
        # longer documents (more co-occurrence events per corpus) for the plainest window: enough mass per column for a
        # cell to fall below epsilon while its row and its column keep other cells - the sparse look-up of thresholded
        # cells in the M-step is only exercised then
        long_docs = [d for d in sigma("abc", 4) if len(d) == 4]
        plain = [c for c in CFGS if c["radii"] == [1] and c["kernel"] == "flat"]
        for cfg in plain:
            for eps in ((0.3,) if tier == "quick" else (0.1, 0.3)):
                for p in itertools.product(long_docs, repeat=2):
                    yield {"kind": kind, "cfg": cfg, "docs": list(p), "eps": eps, "iters": 2, "n_threads": 1}
    elif kind == "timed":
        docs = sigma("ab", 3)
        for cfg in [c for c in CFGS if c["kernel"] != "harmonic"] + MIX_CFGS[:1]:
            for eps in (0.0, 0.3):
                for p in itertools.product(docs, repeat=2):
                    times = [[float(i * (1 + (i % 2))) for i in range(len(d))] for d in p]
                    yield {"kind": kind, "cfg": cfg, "docs": list(p), "times": times, "eps": eps, "iters": 2}
    elif kind == "ngram":
        docs = sigma("ab", 4)
        for cfg in [dict(c, ngram=2) for c in CFGS + MIX_CFGS if c["kernel"] != "geometric"]:
            for eps in (0.0, 0.3):
                for p in itertools.product(docs, repeat=2):
                    if tier == "quick" and len(p[0]) + len(p[1]) > 6:
                        continue
                    yield {"kind": kind, "cfg": cfg, "docs": list(p), "eps": eps, "iters": 2}
    elif kind == "multiset":
        docs = _multiset_docs("quick")
        for cfg in [c for c in CFGS if c["kernel"] != "harmonic"] + MIX_CFGS[:1]:
            for eps in (0.0, 0.3):
                for d in docs:
                    yield {"kind": kind, "cfg": cfg, "docs": [d], "eps": eps, "iters": 2}


def subchecks(tier, seed):
    subs = []
    for kind in ("token", "timed", "ngram", "multiset"):
        gen = (lambda k: (lambda: _cases(tier, k)))(kind)
        subs.append(Sub("em_chain_" + kind, "I", gen, run_case, total=sum(1 for _ in gen()), kind="states",
                        describe="corpora x epsilon x cfgs x n_threads, chain n_iter=0..3 compared with the reference after every iteration",
                        nontrivial_rule="thresholding removed a cell or an iteration changed the matrix"))

    def comp():
        for c in _cases("quick", "token"):
            if c["cfg"]["kernel"] == "harmonic" and c["n_threads"] == 1 and len(c["docs"][0]) + len(c["docs"][1]) <= 4:
                yield c
    subs.append(Sub("em_chain_compiled", "N", comp, run_case, total=sum(1 for _ in comp()), kind="states",
                    describe="conformance: token estimator, harmonic kernel, corpora of <=4 tokens, compiled mode, same oracle",
                    nontrivial_rule="as above"))
    return subs
