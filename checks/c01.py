"""C01 - transform returns one row per input item in the fitted column space."""
from __future__ import annotations

import itertools

import numpy as np
import scipy.sparse as sp

from vmc.core import Sub, res, viol
from vmc import estimators as E
from vmc.inputs import sigma
from vmc.ref import cooc as R
from checks.c03 import build_estimator, make_corpus, est_cells, LATTICE
from checks.c06 import ref_ngrams, _cells, run_edges, _edge_cases
from checks.c16 import ref_parse

PROPERTY = "C01"
LEVEL_TEXT = ("every pair (training corpus F of 1-2 items, transform batch T of 1-3 items) over alphabets extended by an unseen symbol, the empty item and "
              "items longer than anything in F is run through the real estimators x a small configuration lattice; the output must have exactly "
              "len(T) rows (the fitted vocabulary for the co-occurrence family) and the width fixed at fit, and - through the fitted column "
              "dictionary - every cell must equal the reference count of that column's label on that item with unseen vocabulary ignored")
LEVEL_NOTE = "reference counters of C06/C09/C16/C03 reused with the fitted dictionaries; numeric estimators (histogram, KDE, distribution, Wasserstein family, transformers) are checked for shape/width and against single-item transforms"
TECHNIQUE = "bounded exhaustive enumeration of (fit input, transform input, configuration) triples on the real code vs reference counters (explicit-state explorer)"
LEVEL = "exploration"
RULE = "complete product; non-trivial = the transform batch contains an item with unseen vocabulary, an empty item, or lacks the highest fitted column"
ASSUMPTIONS = ["training inputs on which fit itself raises (no vocabulary) are rejected inputs"]

ALPHA = "ab"
UNSEEN = "z"


def _items(maxlen, with_unseen=True):
    s = sigma(ALPHA, maxlen)
    if with_unseen:
        s = s + [UNSEEN, "a" + UNSEEN, UNSEEN + "b" + UNSEEN, "ab" * (maxlen + 1)]
    return s


def run_symbolic(case):
    import vectorizers as V
    kind, cfg, F, T = case["kind"], case["cfg"], case["F"], case["T"]
    v = []
    try:
        if kind == "ngram":
            est = V.NgramVectorizer(**cfg).fit([list(s) for s in F])
        elif kind == "skipgram":
            est = V.SkipgramVectorizer(**cfg).fit([list(s) for s in F])
        elif kind == "lz":
            est = V.LZCompressionVectorizer(**cfg).fit(list(F))
        else:
            est = V.BytePairEncodingVectorizer(**cfg).fit(list(F))
    except Exception as e:
        return res(rej=True, out="fit-rejected:%s" % type(e).__name__)
    if kind == "bpe" and cfg["return_type"] != "matrix":
        W = None
    else:
        W = len(est.column_label_dictionary_)
    try:
        out = est.transform([list(s) for s in T] if kind in ("ngram", "skipgram") else list(T))
    except Exception as e:
        return res([viol("transform-exception:%s:%s" % (kind, type(e).__name__), "fit(%s).transform(%s) raised %r (cfg %s)" % (F, T, e, cfg))], out="exc")
    if W is None:
        if len(out) != len(T):
            v.append(viol("row-count:%s" % kind, "%d outputs for %d items" % (len(out), len(T))))
        else:
            mcc = int(est.max_char_code_)
            for s, e in zip(T, out):
                toks = [chr(int(c)) if int(c) <= mcc else est.tokens_[int(c) - mcc - 1] for c in e] if cfg["return_type"] == "sequences" else list(e)
                if "".join(toks) != "".join(ch if ord(ch) <= mcc else chr(0) for ch in s):
                    v.append(viol("row-meaning:bpe", "item %r encoded as %r" % (s, toks)))
                    break
        nt = any(UNSEEN in s or s == "" for s in T)
        return res(v, nt=repr(case) if nt else None, out=kind)
    if out.shape != (len(T), W):
        v.append(viol("shape:%s" % kind, "fit(%s).transform(%s) has shape %s, expected (%d, %d)" % (F, T, out.shape, len(T), W)))
        return res(v, out="shape")
    # column meaning through the fitted dictionary
    if kind == "ngram":
        vocab = set(t for s in F for t in s)
        lab = est.column_label_dictionary_
        exp = {}
        for i, s in enumerate(T):
            for g, c in ref_ngrams([t for t in s if t in vocab], cfg["ngram_size"], cfg["ngram_behaviour"]).items():
                if g in lab:
                    exp[(i, g)] = float(c)
        got = _cells(out, list(range(len(T))), est.column_index_dictionary_)
    elif kind == "skipgram":
        vocab = set(t for s in F for t in s)
        win = dict(radius=cfg["window_radius"], kernel=cfg["kernel_function"], kargs={}, mix=1.0)
        exp = {}
        for i, s in enumerate(T):
            ss = [t for t in s if t in vocab]
            for p, a in enumerate(ss):
                ctx = ss[p + 1:p + 1 + cfg["window_radius"]]
                for b, w in zip(ctx, R.kernel_weights(win, ctx, None, False)):
                    if (a, b) in est.column_label_dictionary_:
                        exp[(i, (a, b))] = exp.get((i, (a, b)), 0.0) + w
        got = _cells(out, list(range(len(T))), est.column_index_dictionary_)
    elif kind == "lz":
        cl = dict(est.column_label_dictionary_)
        inv = {j: p for p, j in cl.items()}
        exp = {}
        for i, s in enumerate(T):
            d, _ = ref_parse(s, cfg.get("base_dictionary"), cfg.get("max_dict_size", 1 << 16))
            for p, c in d.items():
                if p in cl and c:
                    exp[(i, p)] = float(c)
        got = _cells(out, list(range(len(T))), inv)
    else:   # bpe matrix: counts of the codes of the 'sequences' encoding
        seq = V.BytePairEncodingVectorizer(**dict(cfg, return_type="sequences"))
        seq.fit(list(F))
        encs = seq.transform(list(T))
        cl = est.column_label_dictionary_
        inv = {j: int(c) for c, j in cl.items()}
        exp = {}
        for i, e in enumerate(encs):
            for c in e:
                if int(c) in cl:
                    exp[(i, int(c))] = exp.get((i, int(c)), 0.0) + 1.0
        got = _cells(out, list(range(len(T))), inv)
    bad = R.compare_cells(got, exp, rtol=1e-6)
    if bad and kind == "ngram" and cfg["ngram_behaviour"] == "subgrams" and cfg["ngram_size"] > 1:
        # known finding (C06): 1-gram columns of the subgrams mode stay zero; everything else is still compared
        if all(isinstance(c[0][1], tuple) and len(c[0][1]) == 1 and c[1] == 0 for c in bad):
            rest = R.compare_cells({k: x for k, x in got.items() if len(k[1]) > 1}, {k: x for k, x in exp.items() if len(k[1]) > 1}, rtol=1e-6)
            v.append(viol("column-meaning:ngram:subgrams-1gram-columns-zero", "fit(%s).transform(%s): 1-gram columns are zero: %s" % (F, T, bad)))
            bad = rest
    if bad:
        v.append(viol("column-meaning:%s" % kind, "fit(%s).transform(%s): (cell, got, expected) %s (cfg %s)" % (F, T, bad, cfg)))
    maxcol = W - 1
    lacks_top = out.shape[1] and out.tocsc()[:, maxcol].nnz == 0 if sp.issparse(out) else False
    nt = any(UNSEEN in s or s == "" for s in T) or lacks_top
    return res(v, nt=repr(case) if nt else None, out=kind)


SYM_CFGS = {
    "ngram": [{"ngram_size": n, "ngram_behaviour": b} for n in (1, 2) for b in ("exact", "subgrams")],
    "skipgram": [{"window_radius": r, "kernel_function": k} for r in (1, 2) for k in ("flat", "harmonic")],
    "lz": [{"max_columns": None, "max_dict_size": 65536}, {"max_columns": None, "max_dict_size": 3}, {"max_columns": None, "max_dict_size": 65536, "base_dictionary": {"a": 1}}],
    "bpe": [{"return_type": rt, "max_vocab_size": m} for rt in ("matrix", "sequences", "tokens") for m in (1, 10000)],
}


def _sym_cases(tier):
    L = 3
    train = sigma(ALPHA, L)
    items = _items(2 if tier == "quick" else 3)
    for kind, cfgs in SYM_CFGS.items():
        for cfg in cfgs:
            Fs = [[a] for a in train] + [[a, b] for a in train for b in train if len(a) + len(b) <= (4 if tier == "quick" else 6)]
            for F in Fs:
                Ts = [[t] for t in items] + [list(p) for p in itertools.product(items[:: (3 if tier == "quick" else 2)], repeat=2)]
                if tier != "quick":
                    Ts += [list(p) for p in itertools.product(items[::4], repeat=3)]
                for T in Ts:
                    yield {"kind": kind, "cfg": cfg, "F": F, "T": T}


# ---------------------------------------------------------------- numeric row-wise estimators (registry)

NUMERIC = ["histogram", "kde", "distribution", "wasserstein", "wasserstein_lil", "sinkhorn", "approx_wasserstein", "info_weight",
           "row_denoise", "count_feature_compression", "wasserstein_sinkhorn", "sinkhorn_empty"]


def run_numeric(case):
    spec = E.BY_NAME[case["spec"]]
    cfg = spec.configs(case["tier"])[case["cfg"]]
    trains = spec.train_sets(cfg, case["tier"])
    pool = spec.pool(cfg, case["tier"])
    try:
        est = spec.make(cfg)
        E.fit(spec, est, trains[case["train"]], cfg)
        W = spec.width(est, cfg)
    except Exception as e:
        return res(rej=True, out="fit-rejected:%s" % type(e).__name__)
    items = [pool[i] for i in case["batch"]]
    try:
        out = E.transform(spec, est, items, cfg)
    except Exception as e:
        return res([viol("transform-exception:%s:%s" % (spec.name, type(e).__name__), "transform(%s) raised %r (cfg %s)" % (items, e, cfg))], out="exc")
    v = []
    shape = out.shape if hasattr(out, "shape") else (len(out),)
    if shape[0] != len(items) or (W is not None and (len(shape) < 2 or shape[1] != W)):
        v.append(viol("shape:%s" % spec.name, "transform of %d items has shape %s, fitted width %s (cfg %s)" % (len(items), shape, W, cfg)))
    elif spec.name == "histogram":
        # column meaning: column j counts the values lying in the fitted interval bin_intervals_[j]
        bins = list(est.bin_intervals_)
        for it, row in zip(items, np.asarray(out)):
            want = [sum(1 for x in it if b.left < x <= b.right) for b in bins]
            if list(row) != want:
                v.append(viol("column-meaning:histogram", "item %s counted as %s, per-interval counts are %s (bins %s)" % (it, list(row), want, bins)))
                break
    return res(v, nt=(case["spec"], case["cfg"], case["train"], tuple(case["batch"])), out=spec.name)


def _numeric_cases(tier):
    for name in NUMERIC:
        spec = E.BY_NAME[name]
        for ci, cfg in enumerate(spec.configs(tier)):
            for ti in range(len(spec.train_sets(cfg, tier))):
                n = len(spec.pool(cfg, tier))
                for L in (1, 2, 3):
                    for b in itertools.product(range(n), repeat=L):
                        yield {"spec": name, "cfg": ci, "train": ti, "batch": list(b), "tier": tier}


# ---------------------------------------------------------------- co-occurrence family: transform on new data

def run_cooc_transform(case):
    kind, cfg, F, T = case["kind"], case["cfg"], case["F"], case["T"]
    times = lambda docs: [[float(j * (1 + j % 2)) for j in range(len(d))] for d in docs]
    train = make_corpus(kind, F, times(F))
    test = make_corpus(kind, T, times(T))
    try:
        est = build_estimator(kind, cfg)
        est.fit(train)
    except Exception as e:
        return res(rej=True, out="fit-rejected:%s" % type(e).__name__)
    flat = lambda corpus: ([t for d in corpus for m in d for t in m] if kind == "multiset" else [t[0] if kind == "timed" else t for d in corpus for t in d])
    vocab = sorted(set(flat(train)))
    wins = R.expand_windows(cfg["radii"], cfg["orient"], cfg["kernel"], cfg.get("kargs"), cfg.get("mix"))
    v = []
    try:
        out = est.transform(test)
    except Exception as e:
        return res([viol("transform-exception:%s:%s" % (kind, type(e).__name__), "fit(%s).transform(%s) raised %r" % (F, T, e))], out="exc")
    nrows = len(est.ngram_label_dictionary_) if kind == "ngram" else len(vocab)
    if out.shape != (nrows, len(vocab) * len(wins)):
        v.append(viol("shape:%s" % kind, "transform shape %s expected %s" % (out.shape, (nrows, len(vocab) * len(wins)))))
        return res(v, out="shape")
    if dict(est.token_label_dictionary_) != {t: i for i, t in enumerate(vocab)}:
        v.append(viol("vocabulary-changed-by-transform:%s" % kind, "token_label_dictionary_ %r" % dict(est.token_label_dictionary_)))
    if kind == "multiset":
        exp = R.multiset_cooccurrence(test, wins, cfg["normwin"], kept=set(vocab))[0]
    elif kind == "ngram":
        kept_grams = {tuple(k.split("_")) for k in est.ngram_label_dictionary_}
        exp = R.token_cooccurrence(test, wins, cfg["normwin"], kept=set(vocab), ngram_size=2, kept_ngrams=kept_grams)[0]
    elif kind == "timed":
        # the time scale (delta_mean_) is part of the fitted model: reference weights use the training delta
        try:
            exp = _timed_with_delta(test, wins, cfg["normwin"], set(vocab), float(est.delta_mean_))
        except ZeroDivisionError:
            return res(rej=True, out="ref-undefined:delta_mean_=0")
    else:
        exp = R.token_cooccurrence(test, wins, cfg["normwin"], kept=set(vocab))[0]
    got = est_cells(est, out, kind)
    bad = R.compare_cells(got, exp)
    if bad:
        v.append(viol("column-meaning:%s" % kind, "fit(%s).transform(%s): (cell, got, expected) %s (cfg %s)" % (F, T, bad, cfg)))
    unseen = any(t not in vocab for t in flat(test))
    return res(v, nt=repr(case) if unseen or any(len(d) == 0 for d in T) else None, out=kind)


def _timed_with_delta(corpus, wins, normwin, kept, delta):
    cells = {}
    for s in corpus:
        s = [(t, tm) for (t, tm) in s if t in kept]
        for p, (tok, tm) in enumerate(s):
            per = []
            for w in wins:
                r = w["radius"]
                pos = list(range(p - 1, max(p - r, 0) - 1, -1)) if w["before"] else list(range(p + 1, min(p + r, len(s) - 1) + 1))
                ctx = [s[q][0] for q in pos]
                d = [abs(s[q][1] - tm) for q in pos]
                per.append((ctx, R.kernel_weights(w, ctx, None, False, d, delta)))
            tot = 1.0
            if normwin:
                t_ = sum(sum(k) for _, k in per)
                tot = t_ if t_ > 0 else 1.0
            for w, (ctx, ker) in zip(wins, per):
                for c, k in zip(ctx, ker):
                    if k / tot > 0:
                        cells[(tok, w["prefix"] + str(c))] = cells.get((tok, w["prefix"] + str(c)), 0.0) + k / tot
    return cells


def _cooc_cases(tier):
    train = [[a, b] for a in sigma("ab", 3)[1:] for b in sigma("ab", 2)]
    tests = [["", "ab"], ["zab", "z"], ["abz", "", "ba"], ["ababab" * 3], ["b"], ["zz"]]
    cfgs = [c for c in LATTICE if c["radii"] != [5]][::3]
    for kind in ("token", "timed", "ngram", "multiset"):
        for cfg in cfgs:
            if kind in ("timed", "multiset") and cfg["kernel"] == "harmonic":
                continue
            c2 = dict(cfg, ngram=2) if kind == "ngram" else cfg
            for F in train:
                for T in tests:
                    if kind == "multiset":
                        yield {"kind": kind, "cfg": c2, "F": ["|".join(F)], "T": ["|".join(T)]}
                    else:
                        yield {"kind": kind, "cfg": c2, "F": F, "T": T}


def subchecks(tier, seed):
    g1 = lambda: _sym_cases(tier)
    g2 = lambda: _numeric_cases(tier)
    g3 = lambda: _cooc_cases(tier)
    g4 = lambda: (c for i, c in enumerate(_sym_cases("quick")) if i % 40 == 0 and c["kind"] != "lz")
    g5 = lambda: (c for i, c in enumerate(_cooc_cases("quick")) if i % 9 == 0 and c["kind"] in ("token", "timed"))
    return [
        Sub("symbolic_estimators", "I", g1, run_symbolic, total=sum(1 for _ in g1()), shards=48,
            describe="Ngram / Skipgram / LZ / BPE x configurations x training corpora of 1-2 strings over {a,b} x transform batches of 1-2(3) strings incl. the empty string, unseen symbol z and over-long strings; cell-by-cell column meaning",
            nontrivial_rule="batch has an unseen symbol, an empty item or no entry in the highest fitted column"),
        Sub("numeric_estimators", "I", g2, run_numeric, total=sum(1 for _ in g2()),
            describe="histogram, KDE, distribution, Wasserstein (spmatrix, lil), Sinkhorn, approximate, information weight, row denoising, count compression: all batches <= 3 over the item pool, shape and fitted width",
            nontrivial_rule="every batch"),
        Sub("cooccurrence_transform", "I", g3, run_cooc_transform, total=sum(1 for _ in g3()),
            describe="token/timed/n-gram/multiset vectorizers fitted on pairs over {a,b} and transformed on new corpora (unseen tokens, empty sequences, a corpus 10x longer): rows = fitted vocabulary, columns = blocks x vocabulary, cells vs the reference with the fitted vocabulary",
            nontrivial_rule="new corpus has an unseen token or an empty sequence"),
        Sub("edge_list", "I", (lambda: _edge_cases(tier)), run_edges, total=sum(1 for _ in _edge_cases(tier)),
            describe="EdgeListVectorizer: all multisets of <= 3(4) edges x learned / user / gapped / joint dictionaries x transform edge lists with unknown labels, duplicates and missing rows/columns: shape = fitted shape, cells = summed values",
            nontrivial_rule="every case"),
        Sub("symbolic_compiled", "N", g4, run_symbolic, total=sum(1 for _ in g4()), describe="compiled mode: every 40th symbolic case (Ngram, Skipgram, BPE)", nontrivial_rule="as above"),
        Sub("cooccurrence_transform_compiled", "N", g5, run_cooc_transform, total=sum(1 for _ in g5()), describe="compiled mode: every 9th co-occurrence transform case (token, timed)", nontrivial_rule="as above"),
    ]
