"""C06 - n-gram, skip-gram and edge-list matrices hold exact counts; '+' merges models."""
from __future__ import annotations

import collections
import itertools

import numpy as np

from vmc.core import Sub, res, viol
from vmc.inputs import sigma
from vmc.ref import cooc as R

PROPERTY = "C06"
LEVEL_TEXT = ("complete products of small corpora / edge lists x settings are run through the real NgramVectorizer, SkipgramVectorizer and "
              "EdgeListVectorizer and every cell is compared (through the fitted column dictionaries) with an independent count; all ordered pairs "
              "from a pool of fitted unigram models are added and the merged model is compared with one fitted on the concatenated corpora, "
              "including its transform on every string of a test alphabet")
LEVEL_NOTE = "reference counters in the check (plain loops / dict counting); pure-Python assembly code with small numba helpers: interpreted mode full product, compiled sub-product"
TECHNIQUE = "bounded exhaustive input/configuration enumeration of the real code vs reference counters (explicit-state explorer)"
LEVEL = "exploration"
RULE = "complete products; non-trivial = reference matrix has a non-zero cell"
ASSUMPTIONS = ["skip-gram kernel weights compared to 1e-6 (float32 storage)"]


def _cells(mat, row_names, col_index):
    m = mat.tocoo()
    out = {}
    for r, c, x in zip(m.row.tolist(), m.col.tolist(), m.data.tolist()):
        if x != 0:
            k = (row_names[r], col_index[c])
            out[k] = out.get(k, 0.0) + x
    return out


# ------------------------------------------------------------------ n-grams

def ref_ngrams(doc, n, behaviour):
    out = {}
    sizes = [n] if behaviour == "exact" else range(1, n + 1)
    for k in sizes:
        for i in range(len(doc) - k + 1):
            g = tuple(doc[i:i + k])
            if n == 1:
                g = g[0]
            out[g] = out.get(g, 0) + 1
    return out


def run_ngram(case):
    import vectorizers as V
    docs = [list(d) for d in case["docs"]]
    n, beh, kw = case["n"], case["behaviour"], case["kw"]
    test = [list(d) for d in case["test"]]
    toks = [t for d in docs for t in d]
    if not toks:
        return res(rej=True, out="no-tokens")
    kept = set(toks)
    if "min_occurrences" in kw:
        kept = {t for t in kept if toks.count(t) >= kw["min_occurrences"]}
    ndocs = len(docs)
    dcount = lambda t: sum(1 for d in docs if t in d)
    if "max_document_occurrences" in kw:
        kept = {t for t in kept if dcount(t) <= kw["max_document_occurrences"]}
    if "min_document_occurrences" in kw:
        kept = {t for t in kept if dcount(t) >= kw["min_document_occurrences"]}
    if not kept:
        return res(rej=True, out="empty-vocabulary")
    pdocs = [[t for t in d if t in kept] for d in docs]
    refs = [ref_ngrams(d, n, beh) for d in pdocs]
    allg = {}
    for r_ in refs:
        for g, c in r_.items():
            allg[g] = allg.get(g, 0) + c
    keepg = set(allg)
    if n > 1 and "min_occurrences" in kw:
        keepg = {g for g in keepg if allg[g] >= kw["min_occurrences"]}
    if n > 1:
        # document bounds apply to the n-grams as well, relative to ALL documents (also those too short to hold an n-gram)
        gd = lambda g: sum(1 for r_ in refs if g in r_)
        if "max_document_occurrences" in kw:
            keepg = {g for g in keepg if gd(g) <= kw["max_document_occurrences"]}
        if "min_document_occurrences" in kw:
            keepg = {g for g in keepg if gd(g) >= kw["min_document_occurrences"]}
    if n > 1 and not keepg:
        return res(rej=True, out="no-ngrams")
    v = []
    try:
        est = V.NgramVectorizer(ngram_size=n, ngram_behaviour=beh, **kw)
        mat = est.fit_transform(docs)
    except Exception as e:
        return res([viol("exception:%s" % type(e).__name__, "fit_transform raised %r" % (e,))], out="exc")
    labels = set(est.column_label_dictionary_)
    want_labels = keepg if n > 1 else kept
    if labels != want_labels:
        v.append(viol("columns:%s" % beh, "columns %s expected %s" % (sorted(labels, key=repr), sorted(want_labels, key=repr))))
        return res(v, out="cols")
    if mat.shape != (len(docs), len(labels)):
        v.append(viol("shape", "shape %s expected %s" % (mat.shape, (len(docs), len(labels)))))
    got = _cells(mat, list(range(len(docs))), est.column_index_dictionary_)
    exp = {(i, g): float(c) for i, r_ in enumerate(refs) for g, c in r_.items() if g in want_labels}
    def split_known(g, e):
        """separate the known 1-gram-columns-zero cells of the subgrams mode from everything else"""
        if not (beh == "subgrams" and n > 1):
            return [], g, e
        one = lambda k: isinstance(k[1], tuple) and len(k[1]) == 1
        known = [(k, g.get(k, 0), e[k]) for k in e if one(k) and g.get(k, 0) == 0]
        g2 = {k: x for k, x in g.items() if not (one(k) and x == 0)}
        e2 = {k: x for k, x in e.items() if not (one(k) and g.get(k, 0) == 0)}
        return known, g2, e2
    known, got2, exp2 = split_known(got, exp)
    if known:
        v.append(viol("counts:subgrams:gram-size-[1]", "fit_transform 1-gram cells are zero (doc, gram, got, expected): %s" % known[:4]))
    if got2 != exp2:
        bad = [(k, got2.get(k, 0), exp2.get(k, 0)) for k in sorted(set(got2) | set(exp2), key=repr) if got2.get(k, 0) != exp2.get(k, 0)][:4]
        v.append(viol("counts:%s" % beh, "fit_transform cells (doc, gram, got, expected): %s" % bad))
    # transform on other documents (unseen tokens ignored)
    try:
        tm = est.transform(test)
        tgot = _cells(tm, list(range(len(test))), est.column_index_dictionary_)
        texp = {}
        for i, d in enumerate(test):
            for g, c in ref_ngrams([t for t in d if t in kept], n, beh).items():
                if g in want_labels:
                    texp[(i, g)] = float(c)
        if tm.shape != (len(test), len(labels)):
            v.append(viol("transform-shape", "transform shape %s expected %s" % (tm.shape, (len(test), len(labels)))))
        else:
            known, tg2, te2 = split_known(tgot, texp)
            if known:
                v.append(viol("transform-counts:subgrams", "transform 1-gram cells are zero (doc, gram, got, expected): %s" % known[:4]))
            if tg2 != te2:
                bad = [(k, tg2.get(k, 0), te2.get(k, 0)) for k in sorted(set(tg2) | set(te2), key=repr) if tg2.get(k, 0) != te2.get(k, 0)][:4]
                v.append(viol("transform-counts:%s:other" % beh, "transform cells (doc, gram, got, expected): %s" % bad))
    except Exception as e:
        v.append(viol("transform-exception:%s" % type(e).__name__, "transform raised %r" % (e,)))
    return res(v, nt=repr(case) if exp else None, out="cells=%d" % min(len(exp), 9))


def _ngram_cases(tier):
    docs = sigma("abc", 3) if tier == "quick" else sigma("abc", 4)
    tests = [["", "abz", "cab"], ["zz", "ba"]]
    for n in (1, 2, 3):
        for beh in ("exact", "subgrams"):
            for kw in ({}, {"min_occurrences": 2}, {"max_document_occurrences": 1}, {"min_document_occurrences": 2}):
                if "min_occurrences" not in kw and kw and beh == "subgrams":
                    continue
                for d in itertools.product(docs, repeat=2):
                    if tier == "quick" and n == 3 and len(d[0]) + len(d[1]) < 3:
                        continue
                    yield {"docs": list(d), "n": n, "behaviour": beh, "kw": kw, "test": tests[len(d[0]) % 2]}


# ------------------------------------------------------------------ skip-grams

def run_skipgram(case):
    import vectorizers as V
    docs = [list(d) for d in case["docs"]]
    test = [list(d) for d in case["test"]]
    radius, kernel = case["radius"], case["kernel"]
    toks = [t for d in docs for t in d]
    if not toks:
        return res(rej=True, out="no-tokens")
    wfun, kw = case.get("wfun", "fixed"), dict(case.get("kw", {}))
    win = dict(radius=radius, kernel=kernel, kargs={}, mix=1.0, wfun=wfun, wargs={}, before=False, prefix="")
    counts = collections.Counter(toks)
    vocab = {t for t in counts if counts[t] >= kw.get("min_occurrences", 0)}
    if not vocab:
        return res(rej=True, out="empty-vocabulary")
    amb = []
    # radii are a function of the FIT corpus only: relative frequency among all raw tokens of the training documents
    radii = R.radii_for(win, sorted(vocab), {t: counts[t] / len(toks) for t in vocab}, None, False, amb)
    if amb:
        return res(amb=True, out="radius-on-rounding-boundary")

    def ref(batch, vocab):
        out = {}
        for i, d in enumerate(batch):
            s = [t for t in d if t in vocab]
            for p, a in enumerate(s):
                ctx = s[p + 1:p + 1 + radii[a]]
                for b, w in zip(ctx, R.kernel_weights(win, ctx, None, False)):
                    if w > 0:
                        out[(i, (a, b))] = out.get((i, (a, b)), 0.0) + w
        return out
    exp = ref(docs, vocab)
    v = []
    try:
        est = V.SkipgramVectorizer(window_radius=radius, kernel_function=kernel, window_function=wfun, **kw)
        mat = est.fit_transform(docs)
    except Exception as e:
        if not exp:
            return res(rej=True, out="no-skipgrams")
        return res([viol("exception:%s" % type(e).__name__, "fit_transform raised %r" % (e,))], out="exc")
    want_cols = {k[1] for k in exp}
    if set(est.column_label_dictionary_) != want_cols:
        v.append(viol("columns", "columns %s expected %s" % (sorted(est.column_label_dictionary_), sorted(want_cols))))
        return res(v, out="cols")
    if mat.shape != (len(docs), len(want_cols)):
        v.append(viol("shape", "fit_transform shape %s expected %s" % (mat.shape, (len(docs), len(want_cols)))))
    else:
        got = _cells(mat, list(range(len(docs))), est.column_index_dictionary_)
        bad = R.compare_cells(got, exp, rtol=1e-6)
        if bad:
            v.append(viol("weights", "fit_transform (cell, got, expected): %s" % bad))
    try:
        tm = est.transform(test)
        texp = {k: x for k, x in ref(test, vocab).items() if k[1] in want_cols}
        if tm.shape != (len(test), len(want_cols)):
            v.append(viol("transform-shape", "transform shape %s expected %s" % (tm.shape, (len(test), len(want_cols)))))
        else:
            bad = R.compare_cells(_cells(tm, list(range(len(test))), est.column_index_dictionary_), texp, rtol=1e-6)
            if bad:
                v.append(viol("transform-weights", "transform (cell, got, expected): %s" % bad))
    except Exception as e:
        v.append(viol("transform-exception:%s" % type(e).__name__, "transform(%s) raised %r" % (test, e)))
    return res(v, nt=repr(case) if exp else None, out="cells=%d" % min(len(exp), 9))


def _skip_cases(tier):
    docs = sigma("abc", 3) if tier == "quick" else sigma("abc", 4)
    tests = [["", "abz", "cab"], ["zz", "ba"], ["abcabc"], ["a"]]
    for radius in (1, 2):
        for kernel in ("flat", "harmonic", "geometric"):
            for d in itertools.product(docs, repeat=2):
                for t in tests[: 2 if tier == "quick" else 4]:
                    yield {"docs": list(d), "radius": radius, "kernel": kernel, "test": t}
    # frequency-dependent radii (window_function="variable") with and without a pruned vocabulary: the radii come from
    # the training corpus; transform batches have a different token mix and tokens outside the kept vocabulary
    docs4 = sigma("ab", 4) if tier == "quick" else sigma("abc", 4)
    for radius in (2, 3, 5):
        for kw in ({}, {"min_occurrences": 2}):
            for d in itertools.product(docs4, repeat=2):
                if len(d[0]) + len(d[1]) < 4:
                    continue
                for t in (["abab", "bbbz"], ["aab", "c", "ba"]):
                    yield {"docs": list(d) + ["cab"], "radius": radius, "kernel": "flat", "test": t, "wfun": "variable", "kw": kw}


# ------------------------------------------------------------------ edge lists

def run_edges(case):
    import vectorizers as V
    edges = [tuple(e) for e in case["edges"]]
    test = [tuple(e) for e in case["test"]]
    kw = dict(case["kw"])
    joint = kw.get("joint_space", False)
    rows = kw.get("row_label_dictionary")
    cols = kw.get("column_label_dictionary")
    if joint:
        if cols is None and rows is None:
            labs = sorted({e[0] for e in edges} | {e[1] for e in edges})
            rows = cols = {t: i for i, t in enumerate(labs)}
        else:
            rows = cols = (cols or rows)
    else:
        if rows is None:
            rows = {t: i for i, t in enumerate(sorted({e[0] for e in edges}))}
        if cols is None:
            cols = {t: i for i, t in enumerate(sorted({e[1] for e in edges}))}

    def ref(es):
        out = {}
        for r, c, x in es:
            if r in rows and c in cols:
                out[(r, c)] = out.get((r, c), 0.0) + x
        return {k: x for k, x in out.items() if x != 0}
    shape = (max(rows.values()) + 1, max(cols.values()) + 1)
    v = []
    try:
        est = V.EdgeListVectorizer(**kw)
        mat = est.fit_transform(edges)
    except Exception as e:
        return res([viol("exception:%s" % type(e).__name__, "fit_transform raised %r" % (e,))], out="exc")
    if dict(est.row_label_dictionary_) != rows or dict(est.column_label_dictionary_) != cols:
        v.append(viol("dictionaries", "row/column dictionaries %r %r expected %r %r" % (est.row_label_dictionary_, est.column_label_dictionary_, rows, cols)))
        return res(v, out="dict")
    for name, m, es in (("fit_transform", mat, edges), ("transform", None, test)):
        try:
            if m is None:
                m = est.transform(es)
        except Exception as e:
            v.append(viol("%s-exception:%s" % (name, type(e).__name__), "%s(%s) raised %r" % (name, es, e)))
            continue
        if m.shape != shape:
            v.append(viol("%s-shape" % name, "%s shape %s expected %s for edges %s" % (name, m.shape, shape, es)))
            continue
        got = _cells(m, est.row_index_dictionary_, est.column_index_dictionary_)
        exp = ref(es)
        if got != exp:
            v.append(viol("%s-sums" % name, "%s cells %s expected %s" % (name, got, exp)))
    return res(v, nt=repr(case), out="ok")


def _edge_cases(tier):
    labels = ["a", "b", "c"]
    vals = [1.0, 2.5]
    pool = [(r, c, x) for r in labels for c in labels[:2] + ["d"] for x in vals[:1]] + [("a", "a", 2.5), ("b", "d", -1.0)]
    kws = [{}, {"joint_space": True}, {"row_label_dictionary": {"a": 0, "b": 1, "q": 2}},
           {"column_label_dictionary": {"b": 0, "a": 1, "x": 2}}, {"joint_space": True, "column_label_dictionary": {"a": 0, "b": 1, "c": 2, "d": 3}},
           # user dictionaries whose indices have gaps (the shape is the largest index + 1, not the number of labels)
           {"column_label_dictionary": {"b": 2, "a": 4}}, {"row_label_dictionary": {"a": 1, "c": 3}},
           {"row_label_dictionary": {"b": 5}, "column_label_dictionary": {"d": 1, "a": 3}}]
    tests = [[("a", "a", 1.0)], [("c", "d", 1.0), ("c", "d", 2.0)], [("z", "a", 1.0), ("a", "z", 1.0), ("a", "b", 4.0)], [("b", "a", 1.0), ("b", "a", 1.0), ("a", "b", 0.5), ("c", "a", 3.0)]]
    nmax = 3 if tier == "quick" else 4
    for n in range(1, nmax + 1):
        for es in itertools.combinations_with_replacement(pool, n):
            if n == 3 and len({e[0] for e in es}) == 3 and len({e[1] for e in es}) == 3 and False:
                continue
            for kw in kws:
                for t in tests:
                    yield {"edges": [list(e) for e in es], "kw": kw, "test": [list(e) for e in t]}


# ------------------------------------------------------------------ '+'

POOL = [["ab", "b"], ["a"], ["bc", "cc", ""], ["cd"], ["dda", "e"], ["abc"], ["e", "e"], ["ba", "ab"],
        ["f", "g", "h", "i"], ["ihg", "f", "a"], ["zz", "y", "x", "w", "v", "u"], ["uvwxyz"]]


ADD_DICTS = [{"c": 2, "a": 0, "b": 1, "e": 3, "d": 4}, {"e": 0, "d": 1, "c": 2, "b": 3, "a": 4}, {"b": 1, "a": 0}]


def run_add(case):
    import vectorizers as V
    A = [list(d) for d in POOL[case["i"]]]
    B = [list(d) for d in POOL[case["j"]]]
    # optionally every model is fitted with the same SUPPLIED vocabulary; its key order need not be its index order
    mk = lambda: V.NgramVectorizer(token_dictionary=dict(ADD_DICTS[case["dict"]])) if case.get("dict") is not None else V.NgramVectorizer()
    a = mk().fit(A)
    b = mk().fit(B)
    v = []
    try:
        s = a + b
    except Exception as e:
        return res([viol("add-exception:%s" % type(e).__name__, "a + b raised %r" % (e,))])
    whole = mk().fit(A + B)
    if set(s.column_label_dictionary_) != set(whole.column_label_dictionary_):
        v.append(viol("add-columns", "merged columns %s, concatenation gives %s" % (sorted(s.column_label_dictionary_), sorted(whole.column_label_dictionary_))))
        return res(v)
    if sorted(s.column_label_dictionary_.values()) != list(range(len(whole.column_label_dictionary_))):
        v.append(viol("add-column-indices", "merged column indices %s" % sorted(s.column_label_dictionary_.values())))
        return res(v)
    ci_s = {i: t for t, i in s.column_label_dictionary_.items()}
    if dict(s.column_index_dictionary_) != ci_s:
        v.append(viol("add-index-dictionary", "column_index_dictionary_ %r is not the inverse of column_label_dictionary_ %r" % (s.column_index_dictionary_, s.column_label_dictionary_)))
    rows = list(range(len(A) + len(B)))
    g = _cells(s._train_matrix, rows, ci_s)
    w = _cells(whole._train_matrix, rows, whole.column_index_dictionary_)
    if g != w or s._train_matrix.shape != whole._train_matrix.shape:
        v.append(viol("add-training-matrix", "merged training matrix %s, concatenation %s" % (g, w)))
    tests = [list(t) for t in sigma("abcde", 2)[: 31]] + [list("zab"), list("edcba")]
    try:
        tg = _cells(s.transform(tests), list(range(len(tests))), ci_s)
        tw = _cells(whole.transform(tests), list(range(len(tests))), whole.column_index_dictionary_)
        if tg != tw:
            bad = [(k, tg.get(k, 0), tw.get(k, 0)) for k in sorted(set(tg) | set(tw), key=repr) if tg.get(k, 0) != tw.get(k, 0)][:4]
            v.append(viol("add-transform", "(a+b).transform differs from fit(concat).transform: (cell, merged, whole) %s" % bad))
    except Exception as e:
        v.append(viol("add-transform-exception:%s" % type(e).__name__, "(a+b).transform raised %r" % (e,)))
    return res(v, nt=(case["i"], case["j"], case.get("dict")), out="ok")


def subchecks(tier, seed):
    g1 = lambda: _ngram_cases(tier)
    g2 = lambda: _skip_cases(tier)
    g3 = lambda: _edge_cases(tier)
    adds = [{"i": i, "j": j} for i in range(len(POOL)) for j in range(len(POOL))]
    adds += [{"i": i, "j": j, "dict": d} for d in range(len(ADD_DICTS)) for i in range(8) for j in range(8)]

    def g1n():
        for c in _ngram_cases("quick"):
            if len(c["docs"][0]) + len(c["docs"][1]) <= 3 and not c["kw"]:
                yield c

    def g2n():
        for c in _skip_cases("quick"):
            if len(c["docs"][0]) + len(c["docs"][1]) <= 3 and c["kernel"] == "harmonic":
                yield c
    return [
        Sub("ngram_counts", "I", g1, run_ngram, total=sum(1 for _ in g1()),
            describe="ordered pairs over Sigma_3 x n{1,2,3} x {exact,subgrams} x pruning{none,min_occurrences 2}; fit_transform and transform on documents with unseen tokens",
            nontrivial_rule="reference has a non-zero cell"),
        Sub("skipgram_weights", "I", g2, run_skipgram, total=sum(1 for _ in g2()),
            describe="ordered pairs over Sigma_3 x radius{1,2} x kernel x3 x transform batches (unseen tokens, empty documents, absent columns)",
            nontrivial_rule="reference has a non-zero cell"),
        Sub("edge_list_sums", "I", g3, run_edges, total=sum(1 for _ in g3()),
            describe="all multisets of <=3(4) edges from an 11-edge pool x 5 dictionary/joint_space settings x 4 transform edge lists",
            nontrivial_rule="every case"),
        Sub("add_models", "I", lambda: iter(adds), run_add, total=len(adds),
            describe="all 64 ordered pairs from a pool of 8 fitted unigram models; columns, training matrix and transform on 33 test documents vs the model fitted on the concatenation",
            nontrivial_rule="every pair"),
        Sub("ngram_counts_N", "N", g1n, run_ngram, total=sum(1 for _ in g1n()), describe="compiled mode sub-product (corpora of <=3 tokens)", nontrivial_rule="as above"),
        Sub("skipgram_weights_N", "N", g2n, run_skipgram, total=sum(1 for _ in g2n()), describe="compiled mode sub-product (corpora of <=3 tokens, harmonic)", nontrivial_rule="as above"),
    ]
