"""C09 - byte-pair encodings are lossless, reproducible and within the vocabulary budget."""
from __future__ import annotations

import itertools

import numpy as np

from vmc.core import Sub, res, viol
from vmc.inputs import sigma

PROPERTY = "C09"
LEVEL_TEXT = ("all ordered corpora of 1-2 strings over a 2-letter alphabet up to length 4 (6 thorough; plus a unicode alphabet) x max_vocab_size x "
              "min_token_occurrence x max_char_code are fitted with the real vectorizer; fit_transform and transform encodings of every string of the "
              "alphabet (and of strings with unseen characters) are decoded and compared with the input; merges, budget, re-encoding and the "
              "'matrix'/'tokens' outputs are cross-checked")
LEVEL_NOTE = "interpreted mode turns every out-of-range read and unassigned variable into an exception; compiled mode replays a sub-product; decode written in the check"
TECHNIQUE = "bounded exhaustive input/configuration enumeration of the real code with a round-trip oracle (explicit-state explorer, interpreted + compiled)"
LEVEL = "exploration"
RULE = "complete product; non-trivial = at least one merge was learned and applied to some string"
ASSUMPTIONS = ["corpora in which no pair of codes occurs twice are rejected inputs (fit raises); they are counted, not asserted"]


def decode(codes, tokens, mcc):
    return "".join(chr(int(c)) if int(c) <= mcc else tokens[int(c) - mcc - 1] for c in codes)


def expect_string(s, mcc):
    return "".join(ch if ord(ch) <= mcc else chr(0) for ch in s)


def run_case(case):
    from vectorizers import BytePairEncodingVectorizer as BPE
    corpus, kw, tests = case["corpus"], case["kw"], case["tests"]
    v = []
    pairs = {}
    for s_ in corpus:
        for a, b in zip(s_, s_[1:]):
            pairs[(a, b)] = pairs.get((a, b), 0) + 1
    learnable = bool(pairs) and max(pairs.values()) >= 2
    try:
        est = BPE(return_type="sequences", **kw)
        if case.get("prior") is not None:
            # the SAME instance has been fitted on another corpus and used before: a refit must leave nothing of it behind
            try:
                est.fit(list(case["prior"]))
                est.transform(list(case["prior"]) + list(tests))
            except Exception:
                pass
        enc = est.fit_transform(list(corpus))
    except Exception as e:
        if not learnable:
            return res(rej=True, out="rejected:no-pair-occurs-twice")
        return res([viol("fit-exception:%s" % type(e).__name__, "fit_transform(%s, %s) raised %r" % (corpus, kw, e))], out="exc")
    mcc = int(est.max_char_code_)
    tokens = list(est.tokens_)
    codes = [tuple(int(x) for x in p) for p in est.code_list_]
    cap = kw.get("max_vocab_size", 10000)
    feats = "cap" if len(tokens) >= cap else "nocap"
    # learned tokens are concatenations of their pairs; budget respected
    if len(tokens) > cap:
        v.append(viol("budget", "%d tokens learned, max_vocab_size %d" % (len(tokens), cap)))
    if len(tokens) != len(codes):
        v.append(viol("tokens-vs-codes", "tokens_ %s code_list_ %s" % (tokens, codes)))
    for i, (a, b) in enumerate(codes):
        try:
            ta = chr(a) if a <= mcc else tokens[a - mcc - 1]
            tb = chr(b) if b <= mcc else tokens[b - mcc - 1]
            if tokens[i] != ta + tb or max(a, b) >= mcc + 1 + i:
                v.append(viol("token-not-concatenation", "tokens_[%d]=%r but pair %s decodes to %r" % (i, tokens[i], (a, b), ta + tb)))
        except Exception as e:
            v.append(viol("token-not-concatenation", "pair %s of token %d cannot be decoded: %r" % ((a, b), i, e)))
    # fit_transform encodings decode to the training strings
    ok_ft = True
    for s, e in zip(corpus, enc):
        try:
            d = decode(e, tokens, mcc)
        except Exception as ex:
            d = "<undecodable %r: %s>" % (list(map(int, e)), ex)
        if d != expect_string(s, mcc):
            ok_ft = False
            v.append(viol("fit_transform-roundtrip:len%s" % ("<=1" if len(s) <= 1 else ">1"), "fit_transform encoding %s of %r decodes to %r" % (list(map(int, e)), s, d)))
            break
    # transform: training strings re-encode identically; every test string round-trips
    try:
        tenc = est.transform(list(corpus) + list(tests))
    except Exception as e:
        v.append(viol("transform-exception:%s" % type(e).__name__, "transform raised %r" % (e,)))
        tenc = None
    applied = False
    if tenc is not None:
        for s, e1, e2 in zip(corpus, enc, tenc):
            if list(map(int, e1)) != list(map(int, e2)):
                v.append(viol("transform-differs-from-fit_transform:%s" % feats, "training string %r: fit_transform %s, transform %s (tokens %s)" % (s, list(map(int, e1)), list(map(int, e2)), tokens)))
                break
        for s, e in zip(list(corpus) + list(tests), tenc):
            if any(int(c) > mcc for c in e):
                applied = True
            try:
                d = decode(e, tokens, mcc)
            except Exception as ex:
                d = "<undecodable %r: %s>" % (list(map(int, e)), ex)
            if d != expect_string(s, mcc):
                shape = "len<=1" if len(s) <= 1 else ("one-code" if len(e) == 1 else "len>1")
                v.append(viol("transform-roundtrip:%s" % shape, "transform encoding %s of %r decodes to %r (tokens %s, max_char_code_ %d)" % (list(map(int, e)), s, d, tokens, mcc)))
                break
        # 'tokens' and 'matrix' outputs are the strings / counts of the 'sequences' output
        for rt in ("tokens", "matrix"):
            try:
                e2 = BPE(return_type=rt, **kw)
                out_ft = e2.fit_transform(list(corpus))
                out_t = e2.transform(list(corpus) + list(tests))
            except Exception as e:
                v.append(viol("%s-exception:%s" % (rt, type(e).__name__), "return_type=%s raised %r" % (rt, e)))
                continue
            if rt == "tokens":
                try:
                    want_ft = [[chr(int(c)) if int(c) <= mcc else tokens[int(c) - mcc - 1] for c in e] for e in enc]
                    want_t = [[chr(int(c)) if int(c) <= mcc else tokens[int(c) - mcc - 1] for c in e] for e in tenc]
                except (IndexError, ValueError, OverflowError):
                    continue      # undecodable codes: already reported by the round-trip assertions
                if [list(r) for r in out_ft] != want_ft:
                    v.append(viol("tokens-output", "fit_transform tokens %s expected %s" % (out_ft, want_ft)))
                if [list(r) for r in out_t] != want_t:
                    v.append(viol("tokens-output-transform", "transform tokens %s expected %s" % (out_t, want_t)))
            else:
                cl = e2.column_label_dictionary_
                for name, out, encs in (("fit_transform", out_ft, enc), ("transform", out_t, tenc)):
                    want = np.zeros((len(encs), len(cl)))
                    for i, e in enumerate(encs):
                        for c in e:
                            if int(c) in cl:
                                want[i, cl[int(c)]] += 1
                    if out.shape != want.shape:
                        v.append(viol("matrix-shape:%s" % name, "%s matrix shape %s expected %s" % (name, out.shape, want.shape)))
                    elif not np.array_equal(out.toarray(), want):
                        v.append(viol("matrix-counts:%s" % name, "%s matrix differs from the code counts" % name, observed=out.toarray().tolist(), expected=want.tolist()))
    return res(v, nt=repr(case) if applied else None, out="tokens=%d %s" % (min(len(tokens), 5), feats))


def _cases(tier, alphabet="ab", L=None, compiled=False):
    L = L or (4 if tier == "quick" else 6)
    strings = sigma(alphabet, L)
    tests = sigma(alphabet, 3) + ["z", "azb", alphabet[0] * 7, (alphabet * 4)]
    kws = []
    for mvs in (1, 2, 3, 10000):
        for mto in (1, 2):
            for mcc in (0, "ascii", 97):
                kws.append({"max_vocab_size": mvs, "min_token_occurrence": mto, "max_char_code": mcc})
    if compiled:
        kws = [k for k in kws if k["max_char_code"] == 0 and k["min_token_occurrence"] == 1]
    for kw in kws:
        for s in strings:
            yield {"corpus": [s], "kw": kw, "tests": tests}
        pool = strings if not compiled else sigma(alphabet, 3)
        if tier == "quick" and not compiled:
            pool = sigma(alphabet, 3) + [s for s in strings if len(s) == 4][::3]
        for a, b in itertools.product(pool, repeat=2):
            yield {"corpus": [a, b], "kw": kw, "tests": tests}


def _triple_cases(tier):
    """corpora of three strings: short strings whose only merge is learned AFTER other merges (so that replaying the
    merge list on a string that is already down to two codes matters), repeated strings, empty strings"""
    pool = ["", "a", "ab", "ba", "aaaa", "abab", "bbb", "aab"] if tier == "quick" else ["", "a", "ab", "ba", "aaaa", "abab", "bbb", "aab", "aaaaa", "babab", "bbbbbb"]
    tests = sigma("ab", 3) + ["z", "abababab"]
    for mvs in (2, 10000):
        for mto in (1, 2):
            kw = {"max_vocab_size": mvs, "min_token_occurrence": mto, "max_char_code": 0}
            for t in itertools.product(pool, repeat=3):
                yield {"corpus": list(t), "kw": kw, "tests": tests}


def _refit_cases(tier):
    """the estimator instance under test was fitted on `prior` and used for a transform before it is fitted on `corpus`"""
    pool = [["abab"], ["aaaa", "ab"], ["bbb", "abb"], ["baba", "aab"], ["ab", "ba"], ["aabaab"]] + ([] if tier == "quick" else [["abcabc"], ["bbbb"], ["abab", "baba", "aa"]])
    tests = sigma("ab", 3) + ["z", "abababab", "aabbaabb"]
    for mvs in (1, 2, 10000):
        for mto in (1, 2):
            kw = {"max_vocab_size": mvs, "min_token_occurrence": mto, "max_char_code": 0}
            for prior in pool:
                for corpus in pool:
                    yield {"corpus": corpus, "kw": kw, "tests": tests, "prior": prior}


def subchecks(tier, seed):
    g1 = lambda: _cases(tier)
    g0 = lambda: _triple_cases(tier)
    g2 = lambda: _cases("quick", alphabet="é€", L=3)
    g3 = lambda: _cases("quick", L=3, compiled=True)
    return [
        Sub("bpe_roundtrip", "I", g1, run_case, total=sum(1 for _ in g1()),
            describe="corpora of 1-2 strings over {a,b} (length <= 4/5) x max_vocab_size{1,2,3,10000} x min_token_occurrence{1,2} x max_char_code{0,'ascii',97}; transform on all strings of length <= 3, unseen characters, long repeats",
            nontrivial_rule="a learned code appears in some encoding"),
        Sub("bpe_triples", "I", g0, run_case, total=sum(1 for _ in g0()),
            describe="all ordered triples over a pool of short and repetitive strings x max_vocab_size{2,10000} x min_token_occurrence{1,2}",
            nontrivial_rule="as above"),
        Sub("bpe_refit", "I", (lambda: _refit_cases(tier)), run_case, total=sum(1 for _ in _refit_cases(tier)),
            describe="all ordered pairs (prior corpus, corpus) from a pool of corpora with different merge tables: the instance is fitted on the prior corpus and used for a transform, then fitted on the corpus - all assertions of the round-trip check apply to the second fit",
            nontrivial_rule="as above"),
        Sub("bpe_unicode", "I", g2, run_case, total=sum(1 for _ in g2()),
            describe="same with the alphabet {e-acute, euro sign} (characters above 'ascii'/97 limits) up to length 3", nontrivial_rule="as above"),
        Sub("bpe_compiled", "N", g3, run_case, total=sum(1 for _ in g3()),
            describe="compiled mode: corpora over {a,b} length <= 3, max_char_code 0, min_token_occurrence 1", nontrivial_rule="as above"),
    ]
