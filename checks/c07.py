"""C07 - the exact transport plan is a feasible, optimal coupling."""
from __future__ import annotations

import itertools
from fractions import Fraction

import numpy as np

from vmc.core import Sub, res, viol
from vmc.inputs import compositions

PROPERTY = "C07"
LEVEL_TEXT = ("for every pair of distributions whose masses are multiples of 1/4 (1/6 thorough) on n, m <= 3 (4) points - including zero-mass entries and "
              "1-vs-rest imbalance - and every cost matrix over {0,1,2} (ties, zeros, degenerate vertices), the plan returned by the real "
              "transport_plan is checked for sign, marginals (1e-9) and cost against the exact optimum, obtained by enumerating all integral "
              "couplings (transportation polytopes with integral margins have integral vertices); the plans obtained inside the dense and CSR LOT kernels "
              "are observed through the module binding of transport_plan and checked the same way against the true point-to-point cost (cost orientation)")
LEVEL_NOTE = "oracle: exhaustive enumeration of integral couplings in exact integer arithmetic (no LP solver trusted); compiled, bounds-checked and interpreted execution"
TECHNIQUE = "bounded exhaustive input enumeration of the real solver vs exact brute-force optimum (explicit-state explorer)"
LEVEL = "exploration"
RULE = "complete product; non-trivial = at least two couplings are feasible (the optimum is a real choice)"
ASSUMPTIONS = ["masses on a 1/U grid and integer costs, so the optimum is attained at an integral coupling"]


def couplings(rows, cols):
    """All non-negative integer matrices with the given row and column sums."""
    n, m = len(rows), len(cols)
    if n == 0:
        if all(c == 0 for c in cols):
            yield []
        return
    def row_options(total, caps):
        if len(caps) == 1:
            if total <= caps[0]:
                yield (total,)
            return
        for x in range(min(total, caps[0]) + 1):
            for rest in row_options(total - x, caps[1:]):
                yield (x,) + rest
    for r in row_options(rows[0], list(cols)):
        rem = [c - x for c, x in zip(cols, r)]
        for rest in couplings(rows[1:], rem):
            yield [r] + rest


_OPT = {}


def optimum(pu, qu, cost):
    key = (pu, qu, cost)
    if key not in _OPT:
        best, count = None, 0
        for plan in couplings(list(pu), list(qu)):
            count += 1
            c = sum(plan[i][j] * cost[i][j] for i in range(len(pu)) for j in range(len(qu)))
            best = c if best is None or c < best else best
        if len(_OPT) > 200000:
            _OPT.clear()
        _OPT[key] = (best, count)
    return _OPT[key]


def run_case(case):
    from vectorizers.linear_optimal_transport import transport_plan
    U = case["U"]
    pu, qu = tuple(case["p"]), tuple(case["q"])
    cost = tuple(tuple(r) for r in case["cost"])
    p = np.array(pu, dtype=np.float64) / U
    q = np.array(qu, dtype=np.float64) / U
    C = np.array(cost, dtype=np.float64)
    best, count = optimum(pu, qu, cost)
    feats = "%dx%d" % (len(pu), len(qu))
    zero = ":zero-mass" if (0 in pu or 0 in qu) else ""
    try:
        plan = np.asarray(transport_plan(p.copy(), q.copy(), C.copy()))
    except Exception as e:
        return res([viol("exception:%s%s" % (type(e).__name__, zero), "transport_plan(%s, %s, %s) raised %r" % (p.tolist(), q.tolist(), cost, e))], out="exc")
    v = []
    if plan.shape != C.shape:
        return res([viol("shape", "plan shape %s expected %s" % (plan.shape, C.shape))])
    if not np.isfinite(plan).all() or (plan < -1e-12).any():
        v.append(viol("negative-or-nonfinite%s" % zero, "plan %s" % plan.tolist()))
    if np.abs(plan.sum(axis=1) - p).max() > 1e-9 or np.abs(plan.sum(axis=0) - q).max() > 1e-9:
        v.append(viol("marginals:%s%s" % (feats, zero), "plan %s has marginals %s / %s, expected %s / %s" % (
            plan.tolist(), plan.sum(axis=1).tolist(), plan.sum(axis=0).tolist(), p.tolist(), q.tolist())))
    tot = float((plan * C).sum())
    opt = best / U
    if abs(tot - opt) > 1e-7 * max(1.0, abs(opt)):
        v.append(viol("not-optimal:%s%s" % (feats, zero), "plan cost %r, optimum %r (plan %s, p=%s q=%s cost=%s)" % (tot, opt, plan.tolist(), p.tolist(), q.tolist(), cost)))
    return res(v, nt=(pu, qu, cost) if count > 1 else None, out="feasible=%d" % min(count, 5))


def _cases(shapes, U, costs=(0, 1, 2)):
    for (n, m) in shapes:
        ps = list(compositions(U, n))
        qs = list(compositions(U, m))
        for cost in itertools.product(costs, repeat=n * m):
            cm = [list(cost[i * m:(i + 1) * m]) for i in range(n)]
            for p in ps:
                for q in qs:
                    yield {"U": U, "p": list(p), "q": list(q), "cost": cm}


def run_lopsided(case):
    """n in {1, 2} sources against m >> n unit-mass sinks (and the transpose): the optimum has a closed form (send the p0
    units of source 0 to the columns with the smallest c0j - c1j), so very unbalanced problem sizes can be checked exactly."""
    from vectorizers.linear_optimal_transport import transport_plan
    n, m, pat, p0, transpose = case["n"], case["m"], case["pattern"], case["p0"], case["transpose"]
    cost = [[float(((i * 7 + j * 3 + pat) % 5) if pat < 3 else (abs(j - m // 2) * (i + 1) % 7 if pat == 3 else ((i + j * j + pat) % 4))) for j in range(m)] for i in range(n)]
    q = np.full(m, 1.0 / m)
    if n == 1:
        p = np.array([1.0])
        opt = sum(cost[0]) / m
    else:
        p = np.array([p0 / m, (m - p0) / m])
        diffs = sorted(range(m), key=lambda j: cost[0][j] - cost[1][j])
        chosen = set(diffs[:p0])
        opt = sum(cost[0][j] if j in chosen else cost[1][j] for j in range(m)) / m
    C = np.array(cost)
    if transpose:
        p, q, C = q, p, C.T.copy()
    try:
        plan = np.asarray(transport_plan(p.copy(), q.copy(), np.ascontiguousarray(C)))
    except Exception as e:
        return res([viol("exception:lopsided:%s" % type(e).__name__, "raised %r" % (e,))], out="exc")
    v = []
    if (plan < -1e-12).any() or np.abs(plan.sum(axis=1) - p).max() > 1e-9 or np.abs(plan.sum(axis=0) - q).max() > 1e-9:
        v.append(viol("marginals:lopsided", "%dx%d problem: plan marginals off by %.3g / %.3g" % (plan.shape[0], plan.shape[1], np.abs(plan.sum(axis=1) - p).max(), np.abs(plan.sum(axis=0) - q).max())))
    tot = float((plan * C).sum())
    if abs(tot - opt) > 1e-7 * max(1.0, abs(opt)):
        v.append(viol("not-optimal:lopsided", "%dx%d problem (pattern %d, p0=%d): plan cost %r, optimum %r" % (plan.shape[0], plan.shape[1], pat, p0, tot, opt)))
    return res(v, nt=repr(case), out="lopsided")


def _lopsided_cases(tier):
    # 600 and 1100 sinks: more than 1024 arcs (pynndescent's solver has size-dependent code paths)
    ms = (17, 24, 40, 600, 1100) if tier == "quick" else (17, 24, 33, 40, 64, 100, 511, 512, 600, 1100, 2050)
    for m in ms:
        for pat in range(6):
            for transpose in (False, True):
                yield {"n": 1, "m": m, "pattern": pat, "p0": m, "transpose": transpose}
                for p0 in (1, m // 3, m // 2, m - 1):
                    yield {"n": 2, "m": m, "pattern": pat, "p0": p0, "transpose": transpose}


# ------------------------------------------------------------------ the plan as the vectorizer uses it

def run_in_vectorizer(case):
    """Run the real LOT kernel (dense or CSR path, interpreted so that the module-level transport_plan can be observed) on a
    three-row block and check every plan it obtains against the exact optimum for the TRUE cost matrix
    cost[i][j] = d(i-th support point of the row, j-th reference point) computed here - this covers the orientation of
    the cost matrix (transposed when the sample is not larger than the reference) and the (i, j) mapping of the plan."""
    import math
    import scipy.sparse as sp
    import vectorizers.linear_optimal_transport as L
    from pynndescent.distances import euclidean
    U, path = case["U"], case["path"]
    rows = [(case["x"], case["p"]), ((5.0,), (0,)), ((3.0, 0.0), (1, U - 1))]
    ref_x, q_u = case["y"], case["q"]
    ref = np.array([[y] for y in ref_x], dtype=np.float64)
    q = np.array(q_u, dtype=np.float64) / U
    rec = []
    real = L.transport_plan

    def spy(p_, q_, c_):
        plan = real(p_, q_, c_)
        rec.append((np.array(p_, dtype=np.float64), np.array(q_, dtype=np.float64), np.array(plan, dtype=np.float64)))
        return plan
    L.transport_plan = spy
    try:
        if path == "dense":
            sv = [np.array([[x] for x in xs], dtype=np.float64) for xs, _ in rows]
            sd = [np.array(ps, dtype=np.float64) for _, ps in rows]
            L.lot_vectors_dense_internal(sv, sd, ref, q, metric=euclidean, max_distribution_size=256, chunk_size=2, spherical_vectors=False)
            supports = [(list(xs), list(ps)) for xs, ps in rows]
        else:
            # CSR path: one vocabulary of points, each row selects its support by column index (zero masses are not stored)
            vocab, rr, cc, dd, supports = [], [], [], [], []
            for r, (xs, ps) in enumerate(rows):
                sx, spp = [], []
                for x, m in zip(xs, ps):
                    if m > 0:
                        rr.append(r); cc.append(len(vocab)); dd.append(float(m)); vocab.append([x]); sx.append(x); spp.append(m)
                supports.append((sx, spp))
            X = sp.csr_matrix((dd, (rr, cc)), shape=(len(rows), max(len(vocab), 1)))
            L.lot_vectors_sparse_internal(X.indptr, X.indices, X.data, np.array(vocab or [[0.0]], dtype=np.float64), ref, q, metric=euclidean,
                                          max_distribution_size=256, chunk_size=2, spherical_vectors=False)
    except Exception as e:
        return res([viol("exception:in-vectorizer:%s:%s" % (path, type(e).__name__), "%s raised %r" % (case, e))], out="exc")
    finally:
        L.transport_plan = real
    live = [(xs, ps) for xs, ps in supports if sum(ps) > 0]
    v = []
    if len(rec) != len(live):
        return res([viol("plan-calls:%s" % path, "%d plans were computed for %d rows with mass (%s)" % (len(rec), len(live), case))], out="calls")
    nt = None
    for (xs, ps), (p_, q_, plan) in zip(live, rec):
        n, m = len(xs), len(ref_x)
        sq = "square" if n == m else ("tall" if n > m else "wide")
        if plan.shape != (n, m):
            v.append(viol("shape:in-vectorizer:%s:%s" % (path, sq), "plan shape %s for a %dx%d problem" % (plan.shape, n, m)))
            continue
        tot_u = sum(ps)
        pu = tuple(int(x) * U // tot_u for x in ps) if (U % tot_u == 0) else None
        pn = np.array(ps, dtype=np.float64) / tot_u
        if np.abs(p_ - pn).max() > 1e-12 or np.abs(q_ - q).max() > 1e-12:
            v.append(viol("plan-inputs:%s" % path, "the solver was given p=%s q=%s for row masses %s, reference %s" % (p_.tolist(), q_.tolist(), pn.tolist(), q.tolist())))
        if (plan < -1e-12).any() or np.abs(plan.sum(axis=1) - pn).max() > 1e-9 or np.abs(plan.sum(axis=0) - q).max() > 1e-9:
            v.append(viol("marginals:in-vectorizer:%s:%s" % (path, sq), "plan %s marginals %s / %s expected %s / %s" % (plan.tolist(), plan.sum(axis=1).tolist(), plan.sum(axis=0).tolist(), pn.tolist(), q.tolist())))
        if pu is None:
            continue
        D = tuple(tuple(float(abs(x - y)) for y in ref_x) for x in xs)
        best, count = optimum(pu, tuple(q_u), D)
        tot, opt = float((plan * np.array(D)).sum()), best / U
        if abs(tot - opt) > 1e-6 * max(1.0, abs(opt)):
            v.append(viol("not-optimal:in-vectorizer:%s:%s" % (path, sq), "row support %s masses %s, reference %s masses %s: the plan used %s costs %r under the true cost %s, the optimum is %r" % (
                xs, ps, list(ref_x), list(q_u), plan.tolist(), tot, D, opt)))
        if count > 1:
            nt = repr(case)
    return res(v, nt=nt, out="plans=%d" % len(rec))


def _in_vectorizer_cases(tier):
    U = 4
    sizes = (1, 2, 3) if tier == "quick" else (1, 2, 3, 4)
    for path in ("dense", "sparse"):
        for n in sizes:
            for m in sizes:
                for x in itertools.product((0.0, 1.0, 3.0), repeat=n):
                    for y in itertools.product((0.0, 2.0, 4.0) if m < 3 else (0.0, 2.0), repeat=m):
                        for p in compositions(U, n):
                            if path == "sparse" and 0 in p:
                                continue
                            for q in compositions(U, m):
                                if 0 in q:
                                    continue
                                yield {"path": path, "U": U, "x": list(x), "p": list(p), "y": list(y), "q": list(q)}


def subchecks(tier, seed):
    small = [(1, 1), (1, 2), (2, 1), (1, 3), (3, 1), (2, 2), (2, 3), (3, 2)]
    if tier == "quick":
        specs = [("plans_N", "N", small, 4, (0, 1, 2)), ("plans_3x3_N", "N", [(3, 3)], 3, (0, 1)),
                 ("plans_B", "B", [(2, 2), (2, 3), (1, 3)], 4, (0, 1, 2)), ("plans_I", "I", [(1, 2), (2, 2)], 4, (0, 1, 2))]
    else:
        specs = [("plans_N", "N", small + [(3, 3)], 4, (0, 1, 2)), ("plans_wide_N", "N", [(1, 4), (4, 1), (2, 4), (4, 2)], 4, (0, 1, 2)),
                 ("plans_U6_N", "N", [(2, 2), (2, 3), (3, 2)], 6, (0, 1, 2)), ("plans_3x4_N", "N", [(3, 4), (4, 3)], 4, (0, 1)),
                 ("plans_4x4_N", "N", [(4, 4)], 2, (0, 1)),
                 ("plans_B", "B", small, 4, (0, 1, 2)), ("plans_I", "I", [(1, 2), (2, 1), (2, 2), (2, 3)], 4, (0, 1, 2))]
    subs = [Sub("lopsided_N", "N", (lambda: _lopsided_cases(tier)), run_lopsided, total=sum(1 for _ in _lopsided_cases(tier)),
                describe="very unbalanced problem sizes: 1 or 2 sources against 17..40(100) unit-mass sinks and the transposed problems, 6 cost patterns; optimum in closed form",
                nontrivial_rule="every case")]
    subs.append(Sub("plan_in_vectorizer_I", "I", (lambda: _in_vectorizer_cases(tier)), run_in_vectorizer, total=sum(1 for _ in _in_vectorizer_cases(tier)),
                    describe="the plans obtained INSIDE lot_vectors_dense_internal / lot_vectors_sparse_internal (transport_plan observed through its module binding): supports of 1..3(4) points on {0,1,3}, references of 1..3(4) points, masses in quarters; each plan vs the exact optimum under the true point-to-point cost (cost-matrix orientation, square/tall/wide)",
                    nontrivial_rule="more than one feasible integral coupling for the first row"))
    for name, mode, shapes, U, costs in specs:
        g = (lambda s, u, c: (lambda: _cases(s, u, c)))(shapes, U, costs)
        subs.append(Sub(name, mode, g, run_case, total=sum(1 for _ in g()),
                        describe="shapes %s, masses in multiples of 1/%d (all compositions incl. zeros), all cost matrices over %s" % (shapes, U, list(costs)),
                        nontrivial_rule="more than one feasible integral coupling"))
    return subs
