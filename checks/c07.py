"""C07 - the exact transport plan is a feasible, optimal coupling."""
from __future__ import annotations

import itertools
from fractions import Fraction

import numpy as np

from vmc.core import Sub, res, viol
from vmc.inputs import compositions

PROPERTY = "C07"
LEVEL_TEXT = ("for every pair of distributions whose masses are multiples of 1/4 (1/6 thorough) on n, m <= 3 (4) points - including zero-mass entries and "
              "1-vs-rest imbalance - and every cost matrix over {0,1,2} (ties, zeros, degenerate vertices), the plan returned by the real "
              "transport_plan is checked for sign, marginals (1e-9) and cost against the exact optimum, obtained by enumerating all integral "
              "couplings (transportation polytopes with integral margins have integral vertices)")
LEVEL_NOTE = "oracle: exhaustive enumeration of integral couplings in exact integer arithmetic (no LP solver trusted); compiled, bounds-checked and interpreted execution"
TECHNIQUE = "bounded exhaustive input enumeration of the real solver vs exact brute-force optimum (explicit-state explorer)"
LEVEL = "exploration"
RULE = "complete product; non-trivial = at least two couplings are feasible (the optimum is a real choice)"
ASSUMPTIONS = ["masses on a 1/U grid and integer costs, so the optimum is attained at an integral coupling"]


def couplings(rows, cols):
    """All non-negative integer matrices with the given row and column sums."""
    n, m = len(rows), len(cols)
    if n == 0:
        if all(c == 0 for c in cols):
            yield []
        return
    def row_options(total, caps):
        if len(caps) == 1:
            if total <= caps[0]:
                yield (total,)
            return
        for x in range(min(total, caps[0]) + 1):
            for rest in row_options(total - x, caps[1:]):
                yield (x,) + rest
    for r in row_options(rows[0], list(cols)):
        rem = [c - x for c, x in zip(cols, r)]
        for rest in couplings(rows[1:], rem):
            yield [r] + rest


_OPT = {}


def optimum(pu, qu, cost):
    key = (pu, qu, cost)
    if key not in _OPT:
        best, count = None, 0
        for plan in couplings(list(pu), list(qu)):
            count += 1
            c = sum(plan[i][j] * cost[i][j] for i in range(len(pu)) for j in range(len(qu)))
            best = c if best is None or c < best else best
        if len(_OPT) > 200000:
            _OPT.clear()
        _OPT[key] = (best, count)
    return _OPT[key]


def run_case(case):
    from vectorizers.linear_optimal_transport import transport_plan
    U = case["U"]
    pu, qu = tuple(case["p"]), tuple(case["q"])
    cost = tuple(tuple(r) for r in case["cost"])
    p = np.array(pu, dtype=np.float64) / U
    q = np.array(qu, dtype=np.float64) / U
    C = np.array(cost, dtype=np.float64)
    best, count = optimum(pu, qu, cost)
    feats = "%dx%d" % (len(pu), len(qu))
    zero = ":zero-mass" if (0 in pu or 0 in qu) else ""
    try:
        plan = np.asarray(transport_plan(p.copy(), q.copy(), C.copy()))
    except Exception as e:
        return res([viol("exception:%s%s" % (type(e).__name__, zero), "transport_plan(%s, %s, %s) raised %r" % (p.tolist(), q.tolist(), cost, e))], out="exc")
    v = []
    if plan.shape != C.shape:
        return res([viol("shape", "plan shape %s expected %s" % (plan.shape, C.shape))])
    if not np.isfinite(plan).all() or (plan < -1e-12).any():
        v.append(viol("negative-or-nonfinite%s" % zero, "plan %s" % plan.tolist()))
    if np.abs(plan.sum(axis=1) - p).max() > 1e-9 or np.abs(plan.sum(axis=0) - q).max() > 1e-9:
        v.append(viol("marginals:%s%s" % (feats, zero), "plan %s has marginals %s / %s, expected %s / %s" % (
            plan.tolist(), plan.sum(axis=1).tolist(), plan.sum(axis=0).tolist(), p.tolist(), q.tolist())))
    tot = float((plan * C).sum())
    opt = best / U
    if abs(tot - opt) > 1e-7 * max(1.0, abs(opt)):
        v.append(viol("not-optimal:%s%s" % (feats, zero), "plan cost %r, optimum %r (plan %s, p=%s q=%s cost=%s)" % (tot, opt, plan.tolist(), p.tolist(), q.tolist(), cost)))
    return res(v, nt=(pu, qu, cost) if count > 1 else None, out="feasible=%d" % min(count, 5))


def _cases(shapes, U, costs=(0, 1, 2)):
    for (n, m) in shapes:
        ps = list(compositions(U, n))
        qs = list(compositions(U, m))
        for cost in itertools.product(costs, repeat=n * m):
            cm = [list(cost[i * m:(i + 1) * m]) for i in range(n)]
            for p in ps:
                for q in qs:
                    yield {"U": U, "p": list(p), "q": list(q), "cost": cm}


def run_lopsided(case):
    """n in {1, 2} sources against m >> n unit-mass sinks (and the transpose): the optimum has a closed form (send the p0
    units of source 0 to the columns with the smallest c0j - c1j), so very unbalanced problem sizes can be checked exactly."""
    from vectorizers.linear_optimal_transport import transport_plan
    n, m, pat, p0, transpose = case["n"], case["m"], case["pattern"], case["p0"], case["transpose"]
    cost = [[float(((i * 7 + j * 3 + pat) % 5) if pat < 3 else (abs(j - m // 2) * (i + 1) % 7 if pat == 3 else ((i + j * j + pat) % 4))) for j in range(m)] for i in range(n)]
    q = np.full(m, 1.0 / m)
    if n == 1:
        p = np.array([1.0])
        opt = sum(cost[0]) / m
    else:
        p = np.array([p0 / m, (m - p0) / m])
        diffs = sorted(range(m), key=lambda j: cost[0][j] - cost[1][j])
        chosen = set(diffs[:p0])
        opt = sum(cost[0][j] if j in chosen else cost[1][j] for j in range(m)) / m
    C = np.array(cost)
    if transpose:
        p, q, C = q, p, C.T.copy()
    try:
        plan = np.asarray(transport_plan(p.copy(), q.copy(), np.ascontiguousarray(C)))
    except Exception as e:
        return res([viol("exception:lopsided:%s" % type(e).__name__, "raised %r" % (e,))], out="exc")
    v = []
    if (plan < -1e-12).any() or np.abs(plan.sum(axis=1) - p).max() > 1e-9 or np.abs(plan.sum(axis=0) - q).max() > 1e-9:
        v.append(viol("marginals:lopsided", "%dx%d problem: plan marginals off by %.3g / %.3g" % (plan.shape[0], plan.shape[1], np.abs(plan.sum(axis=1) - p).max(), np.abs(plan.sum(axis=0) - q).max())))
    tot = float((plan * C).sum())
    if abs(tot - opt) > 1e-7 * max(1.0, abs(opt)):
        v.append(viol("not-optimal:lopsided", "%dx%d problem (pattern %d, p0=%d): plan cost %r, optimum %r" % (plan.shape[0], plan.shape[1], pat, p0, tot, opt)))
    return res(v, nt=repr(case), out="lopsided")


def _lopsided_cases(tier):
    # 600 and 1100 sinks: more than 1024 arcs (pynndescent's solver has size-dependent code paths)
    ms = (17, 24, 40, 600, 1100) if tier == "quick" else (17, 24, 33, 40, 64, 100, 511, 512, 600, 1100, 2050)
    for m in ms:
        for pat in range(6):
            for transpose in (False, True):
                yield {"n": 1, "m": m, "pattern": pat, "p0": m, "transpose": transpose}
                for p0 in (1, m // 3, m // 2, m - 1):
                    yield {"n": 2, "m": m, "pattern": pat, "p0": p0, "transpose": transpose}


def subchecks(tier, seed):
    small = [(1, 1), (1, 2), (2, 1), (1, 3), (3, 1), (2, 2), (2, 3), (3, 2)]
    if tier == "quick":
        specs = [("plans_N", "N", small, 4, (0, 1, 2)), ("plans_3x3_N", "N", [(3, 3)], 3, (0, 1)),
                 ("plans_B", "B", [(2, 2), (2, 3), (1, 3)], 4, (0, 1, 2)), ("plans_I", "I", [(1, 2), (2, 2)], 4, (0, 1, 2))]
    else:
        specs = [("plans_N", "N", small + [(3, 3)], 4, (0, 1, 2)), ("plans_wide_N", "N", [(1, 4), (4, 1), (2, 4), (4, 2)], 4, (0, 1, 2)),
                 ("plans_U6_N", "N", [(2, 2), (2, 3), (3, 2)], 6, (0, 1, 2)), ("plans_3x4_N", "N", [(3, 4), (4, 3)], 4, (0, 1)),
                 ("plans_4x4_N", "N", [(4, 4)], 2, (0, 1)),
                 ("plans_B", "B", small, 4, (0, 1, 2)), ("plans_I", "I", [(1, 2), (2, 1), (2, 2), (2, 3)], 4, (0, 1, 2))]
    subs = [Sub("lopsided_N", "N", (lambda: _lopsided_cases(tier)), run_lopsided, total=sum(1 for _ in _lopsided_cases(tier)),
                describe="very unbalanced problem sizes: 1 or 2 sources against 17..40(100) unit-mass sinks and the transposed problems, 6 cost patterns; optimum in closed form",
                nontrivial_rule="every case")]
    for name, mode, shapes, U, costs in specs:
        g = (lambda s, u, c: (lambda: _cases(s, u, c)))(shapes, U, costs)
        subs.append(Sub(name, mode, g, run_case, total=sum(1 for _ in g()),
                        describe="shapes %s, masses in multiples of 1/%d (all compositions incl. zeros), all cost matrices over %s" % (shapes, U, list(costs)),
                        nontrivial_rule="more than one feasible integral coupling"))
    return subs
