"""C20 - histogram rows conserve the events; KDE rows depend only on the value multiset."""
from __future__ import annotations

import itertools
import math

import numpy as np

from vmc.core import Sub, res, viol

PROPERTY = "C20"
LEVEL_TEXT = ("all training collections of <= 4 values from a 7-value set (split into <= 2 sequences) x n_components x strategy x absolute_range x "
              "outlier bins are fitted; the fitted bins must form an increasing gap-free partition of the absolute range and every transform value "
              "(training values, every bin edge +- 1 ulp, +-1e9, range end points, the empty sequence) must be counted exactly once iff it lies in (lo, hi]; "
              "KDE rows are compared under all permutations and with the Gaussian mixture definition")
LEVEL_NOTE = "oracle: interval arithmetic on the fitted bin_intervals_ and the statement's counting rule; Gaussian KDE formula in float64; pure Python/pandas code, single execution mode"
TECHNIQUE = "bounded exhaustive input/configuration enumeration of the real code vs stated rule (explicit-state explorer)"
LEVEL = "exploration"
RULE = "complete product; non-trivial = the transform batch contains a value outside the training range or exactly on a bin edge"
ASSUMPTIONS = ["training collections with fewer than two distinct in-range values are rejected inputs"]

VALUES = [0.0, 0.5, 1.0, 2.0, 3.5, 7.0, 10.0]
RANGES = [(-math.inf, math.inf), (0.0, math.inf), (0.0, 20.0), (-5.0, 20.0)]


def training_sets(maxk):
    for k in range(2, maxk + 1):
        for ms in itertools.combinations_with_replacement(VALUES, k):
            if len(set(ms)) < 2:
                continue
            yield [list(ms)]
            for cut in range(1, k):
                yield [list(ms[:cut]), list(ms[cut:])]


def run_hist(case):
    from vectorizers import HistogramVectorizer
    train, nc, strat, rng, outl = case["train"], case["n_components"], case["strategy"], tuple(case["range"]), case["outlier"]
    lo, hi = rng
    inr = [x for s in train for x in s if lo < x < hi]
    if len(set(inr)) < 2:
        return res(rej=True, out="rejected:<2 distinct in-range values")
    import warnings
    warnings.simplefilter("ignore")
    try:
        h = HistogramVectorizer(n_components=nc, strategy=strat, absolute_range=rng, append_outlier_bins=outl)
        h.fit([np.array(s) for s in train])
    except Exception as e:
        return res([viol("fit-exception:%s:%s" % (type(e).__name__, strat), "fit raised %r" % (e,))], out="exc")
    bins = list(h.bin_intervals_)
    v = []
    # partition of the absolute range
    if not bins:
        return res([viol("no-bins:%s" % strat, "no bins fitted")], out="nobins")
    if any(b.closed != "right" for b in bins):
        v.append(viol("bins-not-right-closed", "bins %s" % bins))
    for a, b in zip(bins, bins[1:]):
        if a.right != b.left:
            v.append(viol("bins-gap-or-overlap:%s%s" % (strat, ":outlier" if outl else ""), "bins %s and %s" % (a, b), observed=str(bins)))
    for b in bins:
        if not b.left < b.right:
            v.append(viol("bins-not-increasing:%s" % strat, "bin %s" % b, observed=str(bins)))
    if bins[0].left != lo or bins[-1].right != hi:
        v.append(viol("bins-do-not-cover-range:%s%s" % (strat, ":outlier" if outl else ""), "bins span (%s, %s], absolute range (%s, %s]" % (bins[0].left, bins[-1].right, lo, hi), observed=str(bins)))
    # transform values
    edges = sorted({e for b in bins for e in (b.left, b.right) if math.isfinite(e)})
    vals = set(x for s in train for x in s)
    for e in edges:
        vals.update([e, np.nextafter(e, -math.inf), np.nextafter(e, math.inf)])
    vals.update([-1e9, 1e9])
    for e in (lo, hi):
        if math.isfinite(e):
            vals.update([e, np.nextafter(e, -math.inf), np.nextafter(e, math.inf)])
    vals = sorted(float(x) for x in vals)
    batch = [np.array(vals)] + [np.array([x]) for x in vals] + [np.array([])]
    try:
        out = np.asarray(h.transform(batch))
    except Exception as e:
        return res(v + [viol("transform-exception:%s" % type(e).__name__, "transform raised %r" % (e,))], out="exc")
    if out.shape != (len(batch), len(bins)):
        v.append(viol("shape", "transform shape %s expected %s" % (out.shape, (len(batch), len(bins)))))
        return res(v, out="shape")
    inrange = lambda x: lo < x <= hi
    if (out < 0).any() or (out != np.round(out)).any():
        v.append(viol("not-nonnegative-integers", "row values %s" % out[0].tolist()))
    want0 = sum(1 for x in vals if inrange(x))
    if out[0].sum() != want0:
        v.append(viol("conservation:%s%s" % (strat, ":outlier" if outl else ""), "row total %s for %d values in the range (values %s)" % (out[0].sum(), want0, vals),
                      observed=out[0].tolist(), expected=want0))
    for x, row in zip(vals, out[1:-1]):
        w = 1 if inrange(x) else 0
        if row.sum() != w:
            where = "edge" if any(x == e for e in edges) else ("outside-training" if (x < min(inr) or x > max(inr)) else "inside")
            v.append(viol("value-count:%s:%s%s" % (where, strat, ":outlier" if outl else ""),
                          "value %r counted %s times, expected %d (bins %s)" % (x, row.sum(), w, bins)))
            break
        if w:
            j = int(np.argmax(row))
            if not (bins[j].left < x <= bins[j].right):
                v.append(viol("wrong-bin", "value %r counted in bin %s" % (x, bins[j])))
                break
    if out[-1].sum() != 0:
        v.append(viol("empty-sequence-row", "empty sequence row %s" % out[-1].tolist()))
    return res(v, nt=repr(case), out="bins=%d" % len(bins))


def _hist_cases(tier):
    maxk = 3 if tier == "quick" else 4
    for train in training_sets(maxk):
        for nc in (2, 3, 5):
            for strat in ("uniform", "quantile"):
                for rng in RANGES:
                    for outl in (False, True):
                        yield {"train": train, "n_components": nc, "strategy": strat, "range": list(rng), "outlier": outl}


def run_kde(case):
    from vectorizers import KDEVectorizer
    import warnings
    warnings.simplefilter("ignore")
    train = [np.array(s) for s in case["train"]]
    seq = case["seq"]
    bw = case["bandwidth"]
    try:
        k = KDEVectorizer(bandwidth=bw, n_components=case["n_components"]).fit(train)
    except Exception as e:
        if bw is None:
            return res(rej=True, out="bandwidth-estimation-rejected")
        return res([viol("fit-exception:%s" % type(e).__name__, "fit raised %r" % (e,))])
    v = []
    perms = sorted(set(itertools.permutations(seq)))
    batch = [np.array(p) for p in perms]
    out = np.asarray(k.transform(batch))
    if out.shape != (len(perms), case["n_components"]):
        return res([viol("shape", "shape %s" % (out.shape,))])
    if (out < 0).any() or not np.isfinite(out).all():
        v.append(viol("negative-or-nonfinite", "row %s" % out[0].tolist()))
    for p, row in zip(perms, out):
        if not np.allclose(row, out[0], rtol=1e-12, atol=1e-300):
            v.append(viol("order-dependent", "permutation %s gives a different row" % (p,), observed=row.tolist(), expected=out[0].tolist()))
            break
    h = float(k.bandwidth_)
    grid = np.asarray(k.evaluation_grid_)
    exp = np.array([np.mean([math.exp(-0.5 * ((g - x) / h) ** 2) / (h * math.sqrt(2 * math.pi)) for x in seq]) for g in grid])
    if not np.allclose(out[0], exp, rtol=1e-6, atol=1e-12):
        v.append(viol("definition", "row differs from the Gaussian KDE definition", observed=out[0].tolist(), expected=exp.tolist()))
    allv = [x for s in case["train"] for x in s]
    if not np.allclose(grid, np.linspace(min(allv), max(allv), case["n_components"])):
        v.append(viol("grid", "evaluation grid %s" % grid.tolist()))
    return res(v, nt=repr(case) if len(perms) > 1 else None, out="perms=%d" % len(perms))


def _kde_cases(tier):
    maxk = 3 if tier == "quick" else 4
    trains = [[[0.0, 1.0, 3.5], [2.0, 7.0]], [[0.5, 0.5, 10.0]], [[1.0, 2.0], [2.0, 3.5, 7.0, 7.0]]]
    for train in trains:
        for bw in (0.5, 2.0, None):
            for nc in (2, 5):
                for k in range(1, maxk + 1):
                    for ms in itertools.combinations_with_replacement(VALUES + [-3.0, 1e3], k):
                        yield {"train": train, "bandwidth": bw, "n_components": nc, "seq": list(ms)}


def subchecks(tier, seed):
    g1 = lambda: _hist_cases(tier)
    g2 = lambda: _kde_cases(tier)
    return [
        Sub("histogram", "I", g1, run_hist, total=sum(1 for _ in g1()),
            describe="multisets of <=%d values from %s split into <=2 sequences x n_components{2,3,5} x strategy x absolute_range x4 x outlier bins; transform on training values, every bin edge +-1ulp, +-1e9, range end points, singletons and the empty sequence" % (3 if tier == "quick" else 4, VALUES),
            nontrivial_rule="every non-rejected case (edge and outlier values are always in the transform batch)"),
        Sub("kde", "I", g2, run_kde, total=sum(1 for _ in g2()),
            describe="3 training collections x bandwidth{0.5,2,estimated} x n_components{2,5} x all multisets of <=%d values (incl. far outliers), all permutations of each" % (3 if tier == "quick" else 4),
            nontrivial_rule="sequence with more than one distinct permutation"),
    ]
