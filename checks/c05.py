"""C05 - the learned vocabulary is exactly the tokens meeting every pruning constraint."""
from __future__ import annotations

import itertools
import re
from fractions import Fraction

from vmc.core import Sub, res, viol
from vmc.inputs import sigma

PROPERTY = "C05"
LEVEL_TEXT = ("(a) every (count, total) pair up to a bound and every (documents, total documents) pair is pushed through the real "
              "preprocess_token_sequences with the bound set exactly on the count: the token must be kept; (b) complete products of small corpora x "
              "pruning settings are compared with a reference in exact integer/Fraction arithmetic, including index order, invariance under all "
              "document permutations and token reversal, supplied dictionaries, and second-stage n-gram pruning")
LEVEL_NOTE = "reference in exact rational arithmetic in the check; frequency bounds are dyadic and asserted only when the exact ratio equals the bound or differs by more than 1e-6; pure Python code (single execution mode)"
TECHNIQUE = "bounded exhaustive enumeration of (count,total) pairs and of corpora x configurations on the real code vs exact-arithmetic reference"
LEVEL = "exploration"
RULE = "all pairs / complete products; non-trivial = a token sits exactly on a bound, or at least one token is pruned while another is kept"
ASSUMPTIONS = ["tokens are single characters; regexes are fullmatch patterns over them"]


# ---------------------------------------------------------------- (a) on-the-bound sweeps

def run_pair(case):
    from vectorizers.preprocessing import preprocess_token_sequences
    n, kind = case["n"], case["kind"]
    v = []
    hits = 0
    for c in range(1, n + 1):
        if kind == "tokens":
            if c == n:
                corpus = [["a"] * c]
            else:
                corpus = [["a"] * c + ["b"] * (n - c)]
            settings = ({"min_occurrences": c}, {"max_occurrences": c})
        else:
            corpus = [["a", "b"]] * c + [["b"]] * (n - c)
            settings = ({"min_document_occurrences": c}, {"max_document_occurrences": c})
        for kw in settings:
            try:
                _, d, _, _ = preprocess_token_sequences(corpus, **kw)
            except Exception as e:
                v.append(viol("pair-exception:%s" % type(e).__name__, "%s with count %d of %d raised %r" % (kw, c, n, e)))
                continue
            hits += 1
            if "a" not in d:
                v.append(viol("on-bound-dropped:%s" % sorted(kw)[0], "token with count %d of %d dropped by %s" % (c, n, kw),
                              observed=sorted(d), expected="contains 'a'"))
    return res(v, nt=(kind, n), out="ok", tr=hits)


# ---------------------------------------------------------------- (b) reference

SETTINGS = [
    {}, {"min_occurrences": 2}, {"max_occurrences": 2}, {"min_occurrences": 2, "max_occurrences": 3},
    {"min_frequency": 0.25}, {"max_frequency": 0.5}, {"min_frequency": 0.5}, {"max_frequency": 0.25},
    {"min_document_occurrences": 2}, {"max_document_occurrences": 1}, {"min_document_frequency": 0.5},
    {"max_document_frequency": 0.5},
    {"excluded_tokens": ["b"]}, {"excluded_token_regex": "a"}, {"excluded_token_regex": "[ab]"}, {"excluded_token_regex": "."},
    {"max_unique_tokens": 1}, {"max_unique_tokens": 2},
    {"min_occurrences": 2, "excluded_tokens": ["a"], "max_unique_tokens": 1},
    {"max_document_occurrences": 2, "excluded_token_regex": "c", "min_frequency": 0.125},
    # max_unique_tokens keeps the most frequent tokens AMONG THOSE MEETING EVERY OTHER CONSTRAINT: each other kind of
    # constraint paired with the cut (a frequent token removed by the other constraint must not use up a slot)
    {"excluded_token_regex": "a", "max_unique_tokens": 1}, {"excluded_token_regex": "[ab]", "max_unique_tokens": 1},
    {"excluded_token_regex": "b", "max_unique_tokens": 2}, {"excluded_tokens": ["a"], "max_unique_tokens": 1},
    {"excluded_tokens": ["b"], "max_unique_tokens": 2}, {"max_occurrences": 2, "max_unique_tokens": 1},
    {"max_frequency": 0.5, "max_unique_tokens": 1}, {"max_document_occurrences": 1, "max_unique_tokens": 1},
    {"max_document_frequency": 0.5, "max_unique_tokens": 2}, {"min_occurrences": 2, "max_unique_tokens": 1},
]


def ref_vocab(corpus, kw):
    """Returns (kept tokens sorted, ambiguous flag)."""
    toks = [t for d in corpus for t in d]
    total, ndocs = len(toks), len(corpus)
    amb = False
    kept = []
    for t in sorted(set(toks)):
        c = toks.count(t)
        dc = sum(1 for d in corpus if t in d)
        ok = True
        if "min_occurrences" in kw and c < kw["min_occurrences"]:
            ok = False
        if "max_occurrences" in kw and c > kw["max_occurrences"]:
            ok = False
        for key, val, num, den in (("min_frequency", kw.get("min_frequency"), c, total), ("max_frequency", kw.get("max_frequency"), c, total),
                                   ("min_document_frequency", kw.get("min_document_frequency"), dc, ndocs),
                                   ("max_document_frequency", kw.get("max_document_frequency"), dc, ndocs)):
            if val is None:
                continue
            f, b = Fraction(num, den), Fraction(val)
            if f != b and abs(f - b) <= Fraction(1, 10 ** 6):
                amb = True
            if key.startswith("min") and f < b:
                ok = False
            if key.startswith("max") and f > b:
                ok = False
        if "min_document_occurrences" in kw and dc < kw["min_document_occurrences"]:
            ok = False
        if "max_document_occurrences" in kw and dc > kw["max_document_occurrences"]:
            ok = False
        if t in kw.get("excluded_tokens", ()):
            ok = False
        if "excluded_token_regex" in kw and re.fullmatch(kw["excluded_token_regex"], t):
            ok = False
        if ok:
            kept.append((t, c))
    k = kw.get("max_unique_tokens")
    if k is not None and len(kept) > k:
        counts = sorted((c for _, c in kept), reverse=True)
        thr = counts[k]          # the (k+1)-th largest
        kept = [(t, c) for t, c in kept if c > thr]
    return [t for t, _ in kept], amb


def _call(corpus, kw):
    from vectorizers.preprocessing import preprocess_token_sequences
    kw2 = {("ignored_tokens" if k == "excluded_tokens" else k): (set(v) if k == "excluded_tokens" else v) for k, v in kw.items()}
    seqs, d, inv, freq = preprocess_token_sequences(corpus, **kw2)
    return seqs, d, inv


def run_corpus(case):
    corpus = [list(d) for d in case["docs"]]
    kw = case["kw"]
    if not any(corpus):
        return res(rej=True, out="no-tokens")
    want, amb = ref_vocab(corpus, kw)
    if amb:
        return res(amb=True, out="ambiguous")
    v = []
    try:
        seqs, d, inv = _call(corpus, kw)
    except Exception as e:
        return res([viol("exception:%s" % type(e).__name__, "raised %r" % (e,))], out="exc")
    exp = {t: i for i, t in enumerate(want)}
    if dict(d) != exp:
        kinds = "+".join(sorted(kw)) or "none"
        v.append(viol("vocabulary:%s" % kinds, "token dictionary %r, expected %r" % (dict(d), exp), observed=dict(d), expected=exp))
    else:
        if {i: t for t, i in exp.items()} != dict(inv):
            v.append(viol("inverse-dictionary", "inverse %r" % (dict(inv),)))
        # kept-token sequences: exactly the kept tokens, in place order
        for doc, s in zip(corpus, seqs):
            if [exp[t] for t in doc if t in exp] != [int(x) for x in s]:
                v.append(viol("sequences", "sequence %s for document %s" % (list(s), doc)))
                break
        # invariance under document permutation and token reversal
        for perm in itertools.permutations(range(len(corpus))):
            c2 = [corpus[i][::-1] for i in perm]
            try:
                _, d2, _ = _call(c2, kw)
            except Exception as e:
                v.append(viol("permutation-exception", "permuted corpus raised %r" % (e,)))
                break
            if dict(d2) != dict(d):
                v.append(viol("order-dependent", "documents %s reversed give %r, original %r" % (perm, dict(d2), dict(d))))
                break
    pruned = len(set(t for dd in corpus for t in dd)) - len(want)
    return res(v, nt=(tuple(case["docs"]), repr(kw)) if (pruned and want) else None, out="kept=%d pruned=%d" % (len(want), pruned))


def run_supplied(case):
    from vectorizers.preprocessing import preprocess_token_sequences
    corpus = [list(d) for d in case["docs"]]
    given = dict(case["dict"])
    mask = case["mask"]
    orig = dict(given)
    try:
        seqs, d, inv, _ = preprocess_token_sequences(corpus, token_dictionary=dict(given), masking=mask)
    except Exception as e:
        return res([viol("exception:%s" % type(e).__name__, "raised %r" % (e,))])
    v = []
    exp = dict(orig)
    if mask is not None:
        exp[mask] = len(orig)
    if dict(d) != exp:
        v.append(viol("supplied-dictionary-changed:%s" % ("mask" if mask else "nomask"), "returned %r, expected %r" % (dict(d), exp)))
    else:
        for doc, s in zip(corpus, seqs):
            w = [orig[t] for t in doc if t in orig] if mask is None else [orig.get(t, len(orig)) for t in doc]
            if w != [int(x) for x in s]:
                v.append(viol("supplied-sequences", "sequence %s for %s, expected %s" % (list(s), doc, w)))
                break
    return res(v, nt=repr(case), out="ok")


def run_ngram_stage(case):
    """Second-stage pruning of n-grams with the same bounds (NgramVectorizer n=2, NgramCooccurrenceVectorizer)."""
    import vectorizers as V
    corpus = [list(d) for d in case["docs"]]
    kw = case["kw"]
    toks = [t for d in corpus for t in d]
    if not toks:
        return res(rej=True, out="no-tokens")
    kept, amb = ref_vocab(corpus, kw)
    if amb or not kept:
        return res(rej=True, out="ambiguous-or-empty")
    seqs = [[t for t in d if t in kept] for d in corpus]
    grams = [[tuple(s[i:i + 2]) for i in range(len(s) - 1)] for s in seqs]
    if not any(grams):
        return res(rej=True, out="no-ngrams")
    gwant, amb2 = ref_vocab(grams, {k: v for k, v in kw.items() if k not in ("excluded_tokens", "excluded_token_regex")})
    if amb2:
        return res(amb=True, out="ambiguous")
    v = []
    kw2 = {k: (set(x) if k == "excluded_tokens" else x) for k, x in kw.items()}
    try:
        nv = V.NgramVectorizer(ngram_size=2, **kw2).fit(corpus)
        got = sorted(nv.column_label_dictionary_, key=lambda g: nv.column_label_dictionary_[g])
        if [tuple(g) for g in got] != gwant:
            v.append(viol("ngram-vectorizer-columns:%s" % "+".join(sorted(kw)), "columns %s expected %s" % (got, gwant)))
    except ValueError as e:
        if gwant:
            v.append(viol("ngram-vectorizer-exception", "raised %r, expected columns %s" % (e, gwant)))
    except Exception as e:
        v.append(viol("ngram-vectorizer-exception:%s" % type(e).__name__, "raised %r" % (e,)))
    try:
        nc = V.NgramCooccurrenceVectorizer(ngram_size=2, window_radii=1, **kw2).fit(corpus)
        got = sorted(nc.ngram_label_dictionary_, key=lambda g: nc.ngram_label_dictionary_[g])
        if got != ["_".join(g) for g in gwant]:
            v.append(viol("ngram-cooccurrence-rows:%s" % "+".join(sorted(kw)), "rows %s expected %s" % (got, gwant)))
    except ValueError as e:
        if gwant:
            v.append(viol("ngram-cooccurrence-exception", "raised %r, expected rows %s" % (e, gwant)))
    except Exception as e:
        v.append(viol("ngram-cooccurrence-exception:%s" % type(e).__name__, "raised %r" % (e,)))
    allg = {g for gs in grams for g in gs}
    return res(v, nt=(tuple(case["docs"]), repr(kw)) if len(gwant) < len(allg) and gwant else None, out="grams=%d" % len(gwant))


WORDS = ["foo", "foot", "food", "bar", "barn", "rebar", "ab", "a", "fo", "bar\n"]
REGEXES = ["foo|bar", "(foo|bar)", "fo+", "ba.", ".*ar", "a|ab", "foo", "fo|food", "[a-f]+"]


def run_regex(case):
    """excluded_token_regex is a FULL match on the token: multi-character tokens, alternation, prefixes, a trailing newline"""
    from vectorizers.preprocessing import preprocess_token_sequences
    corpus = [list(d) for d in case["docs"]]
    rx = case["regex"]
    toks = sorted({t for d in corpus for t in d})
    want = [t for t in toks if not re.fullmatch(rx, t)]
    try:
        _, d, _, _ = preprocess_token_sequences(corpus, excluded_token_regex=rx)
    except Exception as e:
        return res([viol("regex-exception:%s" % type(e).__name__, "raised %r" % (e,))])
    v = []
    exp = {t: i for i, t in enumerate(want)}
    if dict(d) != exp:
        v.append(viol("regex-fullmatch", "excluded_token_regex=%r on tokens %s keeps %r, expected %r" % (rx, toks, dict(d), exp)))
    return res(v, nt=(rx, tuple(toks)) if 0 < len(want) < len(toks) else None, out="kept=%d" % len(want))


def _regex_cases(tier):
    k = 3 if tier == "quick" else 4
    for rx in REGEXES:
        for combo in itertools.combinations(WORDS, k):
            yield {"docs": [list(combo[:2]), list(combo[1:]) + [combo[0]]], "regex": rx}


def subchecks(tier, seed):
    nmax = 700 if tier == "quick" else 2000
    dmax = 60 if tier == "quick" else 120
    pairs = [{"n": n, "kind": "tokens"} for n in range(1, nmax + 1)] + [{"n": n, "kind": "documents"} for n in range(1, dmax + 1)]
    docs = sigma("abc", 2) if tier == "quick" else sigma("abc", 3)
    docs3 = [d for d in itertools.product(docs, repeat=3)]

    def corp():
        for kw in SETTINGS:
            for d in docs3:
                yield {"docs": list(d), "kw": kw}

    def supplied():
        for d in itertools.product(sigma("abz", 2), repeat=2):
            for dic in ({"a": 0, "b": 1}, {"b": 0, "a": 1}, {"a": 0, "b": 1, "q": 2}, {"a": 1, "b": 0, "c": 2}):
                for mask in (None, "M"):
                    yield {"docs": list(d), "dict": dic, "mask": mask}

    def ngr():
        d2 = sigma("ab", 3)
        for kw in [s for s in SETTINGS if "excluded_token_regex" not in s or s["excluded_token_regex"] == "c"][:12] + [{"min_occurrences": 2}]:
            for d in itertools.product(d2, repeat=2):
                yield {"docs": list(d), "kw": kw}
    return [
        Sub("on_bound_pairs", "I", lambda: iter(pairs), run_pair, total=len(pairs), kind="inputs",
            describe="every (count, total) pair with total <= %d through min_occurrences=count and max_occurrences=count; every (d, D) with D <= %d through the document bounds" % (nmax, dmax),
            nontrivial_rule="every total (each covers all counts 1..total; the count of pair evaluations is reported as transitions)"),
        Sub("corpora_lattice", "I", corp, run_corpus, total=len(SETTINGS) * len(docs3),
            describe="ordered triples over Sigma_3<=%d x %d pruning settings; exact reference; all document permutations with token reversal" % (2 if tier == "quick" else 3, len(SETTINGS)),
            nontrivial_rule="at least one token pruned and one kept"),
        Sub("regex_word_tokens", "I", (lambda: _regex_cases(tier)), run_regex, total=sum(1 for _ in _regex_cases(tier)),
            describe="all 3(4)-subsets of a pool of multi-character tokens (prefix families foo/foot/food, bar/barn/rebar, a trailing newline) x 9 regexes incl. top-level alternation; reference = re.fullmatch",
            nontrivial_rule="some but not all tokens excluded"),
        Sub("supplied_dictionary", "I", supplied, run_supplied, total=sum(1 for _ in supplied()),
            describe="pairs over {a,b,z}<=2 x 4 supplied dictionaries x mask{None,M}", nontrivial_rule="every case"),
        Sub("ngram_second_stage", "I", ngr, run_ngram_stage, total=sum(1 for _ in ngr()),
            describe="pairs over Sigma_2<=3 x pruning settings: 2-gram columns of NgramVectorizer and rows of NgramCooccurrenceVectorizer",
            nontrivial_rule="some but not all n-grams pruned"),
    ]
