"""C02 - fit_transform(X) equals fit(X).transform(X), and fit returns the estimator."""
from __future__ import annotations

import itertools

import numpy as np
import scipy.sparse as sp

from vmc.core import Sub, res, viol
from vmc import estimators as E
from vmc.inputs import sigma, product_dicts
from checks.c03 import build_estimator, make_corpus, _multiset_docs

PROPERTY = "C02"
WORKERS = {"I": 10, "N": 6}
LEVEL_TEXT = ("for every estimator and transformer, over complete products of small training inputs x NON-default settings (metric, input_method, "
              "memory_size, kernel, window function, orientation, mask, n_iter, epsilon, return_type, vocabulary limits, n_components on both "
              "sides of the rank), fit must return the estimator itself and fit_transform(X) must equal fit(X).transform(X): identical for "
              "counts/encodings, 1e-5 relative for float32 co-occurrence, 1e-6 for SVD outputs when n_components >= min(shape) >= rank")
LEVEL_NOTE = "differential oracle between two fresh estimators with the same integer random_state; interpreted mode for the full product, compiled replay of a sub-product"
TECHNIQUE = "bounded exhaustive input/configuration enumeration of the real code with a differential fit_transform-vs-fit.transform oracle (explicit-state explorer)"
LEVEL = "exploration"
RULE = "complete products; non-trivial = the output has at least one non-zero / non-empty entry"
ASSUMPTIONS = ["SVD-compressed outputs are compared only in the regime n_components >= min(matrix shape), which contains n_components >= rank"]


def _dense(out):
    if sp.issparse(out):
        return out.toarray()
    if isinstance(out, np.ndarray):
        return out
    return out


def _compare(a, b, tol):
    if sp.issparse(a) or isinstance(a, np.ndarray):
        a, b = np.asarray(_dense(a), dtype=np.float64), np.asarray(_dense(b), dtype=np.float64)
        if a.shape != b.shape:
            return "shape %s vs %s" % (a.shape, b.shape)
        if not np.allclose(a, b, rtol=tol, atol=tol, equal_nan=True):
            return "max abs difference %.3g" % np.abs(a - b).max()
        return None
    if len(a) != len(b):
        return "%d vs %d items" % (len(a), len(b))
    for x, y in zip(a, b):
        x, y = np.asarray(x), np.asarray(y)
        if x.shape != y.shape or (x.dtype.kind in "OUS" and x.tolist() != y.tolist()) or (x.dtype.kind not in "OUS" and not np.allclose(x, y, rtol=tol, atol=tol, equal_nan=True)):
            return "item %s vs %s" % (x.tolist(), y.tolist())
    return None


def _nontrivial(out):
    if sp.issparse(out):
        return out.nnz > 0
    if isinstance(out, np.ndarray):
        return bool(np.any(out != 0))
    return any(len(np.asarray(x)) > 0 for x in out)


def run_registry(case):
    spec = E.BY_NAME[case["spec"]]
    cfg = spec.configs(case["tier"])[case["cfg"]]
    items = case["items"]
    v = []
    try:
        e1 = spec.make(cfg)
        ft = E.fit_transform(spec, e1, items, cfg)
    except Exception as e:
        return res(rej=True, out="fit_transform rejected: %s" % type(e).__name__)
    try:
        e2 = spec.make(cfg)
        r = E.fit(spec, e2, items, cfg)
    except Exception as e:
        return res([viol("fit-raises-but-fit_transform-works:%s" % spec.name, "fit raised %r" % (e,))], out="exc")
    if r is not e2:
        v.append(viol("fit-does-not-return-self:%s" % spec.name, "fit returned %r" % (type(r).__name__,)))
        return res(v, out="noself")
    try:
        t = E.transform(spec, e2, items, cfg)
    except Exception as e:
        return res([viol("transform-exception:%s:%s" % (spec.name, type(e).__name__), "fit(X).transform(X) raised %r (cfg %s, items %s)" % (e, cfg, items))], out="exc")
    tol = max(spec.tol, 1e-6 if spec.name in ("wasserstein", "wasserstein_lil", "sinkhorn", "approx_wasserstein", "count_feature_compression") else 0)
    d = _compare(ft, t, tol)
    if d:
        # tell a transform path that differs from the fit path apart from a fit that is not reproducible
        try:
            same_model = _compare(ft, E.transform(spec, e1, items, cfg), tol)
        except Exception:
            same_model = "exception"
        kind = "fit_transform-differs" if same_model else "fit-not-reproducible"
        if spec.name == "count_feature_compression":
            M = np.array(items, dtype=np.float64)
            if np.linalg.matrix_rank(M) < min(cfg["n_components"], M.shape[1]):
                kind += ":rank<n_components"
        v.append(viol("%s:%s" % (kind, spec.name), "fit_transform(X) != fit(X).transform(X) on a second estimator with the same parameters: %s; "
                      "transform on the first estimator: %s (cfg %s, items %s)" % (d, same_model or "agrees", cfg, items),
                      observed=str(_dense(t))[:500], expected=str(_dense(ft))[:500]))
    return res(v, nt=(case["spec"], case["cfg"], repr(items)) if _nontrivial(ft) else None, out=spec.name)


def _registry_cases(tier, names=None):
    for spec in E.ROW_WISE:
        if names and spec.name not in names:
            continue
        for ci, cfg in enumerate(spec.configs(tier)):
            pool = spec.pool(cfg, tier)
            trains = list(spec.train_sets(cfg, tier))
            # training inputs: the registered training sets + every ordered pair / triple of pool items
            for t in trains:
                yield {"spec": spec.name, "cfg": ci, "items": t, "tier": tier}
            for k in (2, 3):
                for comb in itertools.product(pool, repeat=k):
                    if spec.name in ("wasserstein", "wasserstein_lil", "sinkhorn", "approx_wasserstein", "distribution", "count_feature_compression", "row_denoise", "info_weight") and k == 2:
                        continue
                    yield {"spec": spec.name, "cfg": ci, "items": list(comb), "tier": tier}


# ---------------------------------------------------------------- Wasserstein, generator input (single-use iterators)

GEN_ROWS = [
    [[1, 2, 0, 1], [0, 1, 1, 0], [3, 0, 0, 1], [1, 1, 1, 1], [0, 0, 2, 1]],
    [[4, 3, 2, 1], [1, 0, 0, 0], [1, 2, 3, 4], [0, 5, 0, 1], [2, 2, 1, 0], [0, 0, 0, 7]],
]


def run_generator(case):
    """input_method="generator": distributions and vectors arrive as single-use iterators, so every call gets fresh ones;
    fit_transform must equal fit().transform() and a second transform, whatever the block size and truncation limit"""
    import vectorizers as V
    rows = np.array(GEN_ROWS[case["rows"]], dtype=np.float64)
    kw = dict(n_components=6, reference_size=3, random_state=3, metric=case["metric"], memory_size=case["memory_size"],
              max_distribution_size=case["mds"], input_method="generator", generator_vector_dim=2, generator_n_distributions=len(rows))
    ref = dict(reference_vectors=E.VEC4[:3].copy(), reference_distribution=np.array([0.5, 0.25, 0.25]))

    def gens():
        X, vs = [], []
        for r in rows:
            nz = np.nonzero(r)[0]
            X.append(r[nz].copy())
            vs.append(np.ascontiguousarray(E.VEC4[nz]))
        return (x for x in X), (a for a in vs)
    v = []
    try:
        e1 = V.WassersteinVectorizer(**kw)
        X, vs = gens()
        ft = np.asarray(e1.fit_transform(X, vectors=vs, **ref))
        e2 = V.WassersteinVectorizer(**kw)
        X, vs = gens()
        ret = e2.fit(X, vectors=vs, **ref)
        if ret is not e2:
            v.append(viol("fit-returns-other:wasserstein_generator", "fit returned %r" % (type(ret),)))
        X, vs = gens()
        t2 = np.asarray(e2.transform(X, vectors=vs))
        X, vs = gens()
        t1 = np.asarray(e1.transform(X, vectors=vs))
    except Exception as e:
        return res([viol("exception:wasserstein_generator:%s" % type(e).__name__, "%s raised %r" % (case, e))], out="exc")
    for name, t in (("fit().transform()", t2), ("transform on the fit_transform estimator", t1)):
        if t.shape != ft.shape or not np.allclose(t, ft, rtol=1e-5, atol=1e-5):
            v.append(viol("fit_transform-differs:wasserstein_generator%s" % (":truncated" if case["mds"] < 4 else ""),
                          "%s differs from fit_transform by %.3g (%s)" % (name, float(np.abs(t - ft).max()) if t.shape == ft.shape else -1, case),
                          observed=str(t.tolist())[:400], expected=str(ft.tolist())[:400]))
            break
    return res(v, nt=repr(case), out="generator")


def _generator_cases(tier):
    for ri in range(len(GEN_ROWS)):
        for metric in ("cosine", "euclidean"):
            for ms in ("2G", "96", "144"):
                for mds in (256, 3, 2):
                    yield {"rows": ri, "metric": metric, "memory_size": ms, "mds": mds}


# ---------------------------------------------------------------- co-occurrence family

COOC_CFGS = list(product_dicts(radii=[[1], [2]], kernel=["flat", "geometric"], orient=["after", "directional"], normwin=[False, True]))
COOC_EXTRA = [
    {"wfun": "variable"}, {"mask_string": "M", "excluded_tokens": {"b"}}, {"mask_string": "M", "excluded_tokens": {"b"}, "nullify_mask": True},
    {"n_iter": 1}, {"n_iter": 2, "epsilon": 0.3}, {"epsilon": 0.3}, {"min_occurrences": 2}, {"n_threads": 2}, {"coo_initial_memory": "1k"},
]


def run_cooc(case):
    kind, cfg, docs = case["kind"], case["cfg"], case["docs"]
    corpus = make_corpus(kind, docs, case.get("times"))
    try:
        e1 = build_estimator(kind, cfg)
        ft = e1.fit_transform(corpus)
    except Exception as e:
        return res(rej=True, out="rejected:%s" % type(e).__name__)
    v = []
    try:
        e2 = build_estimator(kind, cfg)
        r = e2.fit(corpus)
        if r is not e2:
            return res([viol("fit-does-not-return-self:%s" % kind, "fit returned %r" % type(r).__name__)])
        t = e2.transform(corpus)
    except Exception as e:
        return res([viol("fit-transform-path-exception:%s:%s" % (kind, type(e).__name__), "fit(X).transform(X) raised %r" % (e,))], out="exc")
    d = _compare(ft, t, 1e-5)
    feats = "+".join(sorted(k for k in cfg if k not in ("radii", "kernel", "orient", "normwin")))
    if d:
        v.append(viol("fit_transform-differs:%s:%s" % (kind, feats or "plain"), "%s (cfg %s, docs %s)" % (d, cfg, docs), observed=str(t.toarray())[:400], expected=str(ft.toarray())[:400]))
    if _compare(ft, e2.cooccurrences_, 1e-5):
        v.append(viol("cooccurrences_-attribute-differs:%s" % kind, "fit(X).cooccurrences_ != fit_transform(X)"))
    return res(v, nt=(kind, repr(cfg), tuple(docs)) if ft.nnz else None, out=kind)


def _cooc_cases(tier, compiled=False):
    docs = sigma("abc", 3) if not compiled else sigma("ab", 2)
    pairs = [p for p in itertools.product(docs, repeat=2) if tier != "quick" or len(p[0]) + len(p[1]) <= 4]
    for kind in ("token", "timed", "ngram", "multiset"):
        if compiled and kind == "ngram":
            continue      # every NgramCooccurrenceVectorizer instance recompiles its kernels (~8 s): covered interpreted only
        if kind == "multiset":
            prs = [(d,) for d in _multiset_docs("quick")]
        else:
            prs = pairs
        base = [c for c in COOC_CFGS if not (kind in ("timed", "multiset") and c["kernel"] == "harmonic")]
        if compiled:
            base = base[::5]
        for ci, c in enumerate(base):
            extras = [{}] + (COOC_EXTRA if (ci % 4 == 0) else COOC_EXTRA[ci % len(COOC_EXTRA)::len(COOC_EXTRA)])
            if compiled:
                extras = [{}, {"n_iter": 1}, {"mask_string": "M", "excluded_tokens": {"b"}}]
                prs = prs[::6] if kind == "multiset" else prs[::2]
            for ex in extras:
                if kind == "multiset" and ex.get("wfun"):
                    continue
                cfg = dict(c, **ex)
                if kind == "ngram":
                    cfg["ngram"] = 2
                for p in prs:
                    case = {"kind": kind, "cfg": cfg, "docs": list(p)}
                    if kind == "timed":
                        case["times"] = [[float(i * (1 + (i % 2))) for i in range(len(d))] for d in p]
                    yield case


def _jsonable(cfg):
    return {k: (sorted(v) if isinstance(v, set) else v) for k, v in cfg.items()}


def run_cooc_json(case):
    c = dict(case)
    cfg = dict(c["cfg"])
    if "excluded_tokens" in cfg:
        cfg["excluded_tokens"] = set(cfg["excluded_tokens"])
    c["cfg"] = cfg
    return run_cooc(c)


def _cooc_cases_json(tier, compiled=False):
    for c in _cooc_cases(tier, compiled):
        c["cfg"] = _jsonable(c["cfg"])
        yield c


# ---------------------------------------------------------------- tree, edge list, sequential difference

def run_misc(case):
    import vectorizers as V
    from vectorizers.transformers import SequentialDifferenceTransformer
    from checks.c15 import make_item
    kind = case["kind"]
    if kind == "tree":
        X = [make_item(p, l) for p, l in case["items"]]
        mk = lambda: V.LabelledTreeCooccurrenceVectorizer(**case["kw"])
    elif kind == "edge":
        X = [tuple(e) for e in case["items"]]
        mk = lambda: V.EdgeListVectorizer(**case["kw"])
    else:
        X = [np.array(s, dtype=np.float64) for s in case["items"]]
        mk = lambda: SequentialDifferenceTransformer(**case["kw"])
    try:
        e1 = mk()
        ft = e1.fit_transform(X)
    except Exception as e:
        return res(rej=True, out="rejected:%s" % type(e).__name__)
    e2 = mk()
    try:
        r = e2.fit(X)
        if r is not e2:
            return res([viol("fit-does-not-return-self:%s" % kind, "fit returned %r" % type(r).__name__)])
        t = e2.transform(X)
    except Exception as e:
        return res([viol("fit-transform-path-exception:%s:%s" % (kind, type(e).__name__), "raised %r" % (e,))])
    d = _compare(ft, t, 1e-6)
    v = [viol("fit_transform-differs:%s" % kind, "%s (kw %s items %s)" % (d, case["kw"], case["items"]))] if d else []
    return res(v, nt=repr(case), out=kind)


def _misc_cases(tier):
    from checks.c15 import all_items
    items = all_items(3, "ab")
    for a, b in itertools.product(items[::3], repeat=2):
        for kw in ({"window_radius": 2, "window_orientation": "directional"}, {"window_radius": 1, "kernel_function": "harmonic", "window_orientation": "symmetric"},
                   {"window_radius": 2, "mask_string": "M", "ignored_tokens": ["b"], "nullify_mask": True}):
            yield {"kind": "tree", "items": [a, b], "kw": kw}
    pool = [("a", "x", 1.0), ("a", "y", 2.0), ("b", "x", 1.0), ("c", "c", 3.0), ("a", "x", 0.5)]
    for n in (1, 2, 3):
        for es in itertools.product(pool, repeat=n):
            for kw in ({}, {"joint_space": True}, {"row_label_dictionary": {"a": 0, "b": 1, "q": 2}}):
                yield {"kind": "edge", "items": [list(e) for e in es], "kw": kw}
    for stride in (1, 2, 3):
        for L in range(stride + 1, 8):
            yield {"kind": "seqdiff", "items": [[2.0 ** i for i in range(L)], [3.0 ** i for i in range(L + 1)]], "kw": {"stride": stride}}


def subchecks(tier, seed):
    g1 = lambda: _registry_cases(tier)
    g2 = lambda: _cooc_cases_json(tier)
    g3 = lambda: _misc_cases(tier)
    comp_names = ("bpe", "ngram", "skipgram", "wasserstein", "sinkhorn", "info_weight", "row_denoise", "count_feature_compression")
    comp_subs = []
    for nm in comp_names:
        g = (lambda n: (lambda: (c for i, c in enumerate(_registry_cases("quick", (n,))) if i % (14 if tier == "quick" else 3) == 0)))(nm)
        comp_subs.append(Sub("registry_compiled_" + nm, "N", g, run_registry, total=sum(1 for _ in g()), shards=1,
                             describe="compiled mode: every 14th (3rd thorough) registry case of %s" % nm, nontrivial_rule="as above"))
    for kd in ("token", "timed", "multiset"):
        g = (lambda k: (lambda: (c for c in _cooc_cases_json("quick", compiled=True) if c["kind"] == k)))(kd)
        comp_subs.append(Sub("cooccurrence_compiled_" + kd, "N", g, run_cooc_json, total=sum(1 for _ in g()), shards=1,
                             describe="compiled mode sub-product of the %s co-occurrence vectorizer" % kd, nontrivial_rule="as above"))
    return [
        Sub("registry", "I", g1, run_registry, total=sum(1 for _ in g1()),
            describe="every registered row-wise estimator/transformer x configuration x (registered training sets + all ordered pairs and triples of pool items)",
            nontrivial_rule="non-empty / non-zero output", shards=48),
        Sub("cooccurrence_family", "I", g2, run_cooc_json, total=sum(1 for _ in g2()),
            describe="token/timed/n-gram/multiset vectorizers x radius x kernel x orientation x normalize_windows x {variable window, mask, mask+nullify, n_iter 1/2, epsilon, min_occurrences, n_threads 2, coo_initial_memory 1k} x corpora",
            nontrivial_rule="non-zero matrix", shards=48),
        Sub("wasserstein_generator", "I", (lambda: _generator_cases(tier)), run_generator, total=sum(1 for _ in _generator_cases(tier)),
            describe="WassersteinVectorizer(input_method='generator') on two row sets x metric x memory_size {2G, 96, 144} (one block / blocks of 2 and 3 rows) x max_distribution_size {256, 3, 2}: fit_transform vs fit().transform() vs a second transform, fresh iterators for every call",
            nontrivial_rule="every case"),
        Sub("tree_edge_seqdiff", "I", g3, run_misc, total=sum(1 for _ in g3()),
            describe="LabelledTreeCooccurrenceVectorizer, EdgeListVectorizer, SequentialDifferenceTransformer over small inputs x settings", nontrivial_rule="every case"),
    ] + comp_subs
