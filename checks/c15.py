"""C15 - labelled-tree co-occurrence counts kernel-weighted walks between labels."""
from __future__ import annotations

import itertools

import numpy as np
import scipy.sparse as sp

from vmc.core import Sub, res, viol
from vmc.inputs import sigma
from vmc.ref import cooc as R

PROPERTY = "C15"
LEVEL_TEXT = ("all rooted forests with <= 4 nodes (5 thorough) x all labelings over {a,b} ({a,b,c}) as single items and as pairs of small items x radius x "
              "kernel x orientation x pruning/masking are fitted with the real vectorizer and compared with a walk count done by explicit descent "
              "over child lists (removed nodes contracted onto their nearest kept ancestor); path graphs are additionally compared with the real "
              "TokenCooccurrenceVectorizer")
LEVEL_NOTE = "reference by explicit recursion over child lists, no matrix powers or label binarizer; pure scipy/Python code path, single execution mode (the token vectorizer side of the path comparison runs interpreted)"
TECHNIQUE = "bounded exhaustive input/configuration enumeration of the real code vs reference walk counter (explicit-state explorer)"
LEVEL = "exploration"
RULE = "complete product; non-trivial = the reference matrix has a non-zero cell"
ASSUMPTIONS = ["kernel weights compared to 1e-6 relative (float32 label binarizer product)"]


def forests(n):
    """parent arrays: node i has parent in {-1} + range(i)"""
    return itertools.product(*[[-1] + list(range(i)) for i in range(n)])


def make_item(parents, labels):
    n = len(parents)
    A = sp.lil_matrix((n, n))
    for c, p in enumerate(parents):
        if p >= 0:
            A[p, c] = 1
    return (A.tocsr(), list(labels))


def walks(children, u, k):
    """multiset of end nodes of walks with exactly k steps from u"""
    cur = {u: 1}
    for _ in range(k):
        nxt = {}
        for x, m in cur.items():
            for c in children[x]:
                nxt[c] = nxt.get(c, 0) + m
        cur = nxt
    return cur


def reference(items, radius, kernel, orientation, kept, mask, nullify, kargs=None):
    win = dict(radius=radius, kernel=kernel, kargs=kargs or {}, mix=1.0)
    w = R.kernel_weights(win, [None] * radius, None, False)
    after = {}
    for parents, labels in items:
        n = len(parents)
        labs = list(labels)
        par = list(parents)
        if mask is None:
            alive = [labs[i] in kept for i in range(n)]
            # contract removed nodes onto the nearest kept ancestor
            def up(i):
                p = par[i]
                while p >= 0 and not alive[p]:
                    p = par[p]
                return p
            par2 = [up(i) if alive[i] else None for i in range(n)]
        else:
            alive = [True] * n
            labs = [l if l in kept else mask for l in labs]
            par2 = par
        children = {i: [] for i in range(n)}
        for c in range(n):
            if alive[c] and par2[c] is not None and par2[c] >= 0:
                children[par2[c]].append(c)
        for u in range(n):
            if not alive[u]:
                continue
            for k in range(1, radius + 1):
                for v, m in walks(children, u, k).items():
                    key = (labs[u], labs[v])
                    after[key] = after.get(key, 0.0) + w[k - 1] * m
    if nullify and mask is not None:
        after = {k: x for k, x in after.items() if mask not in k}
    out = {}
    for (a, b), x in after.items():
        if x == 0:
            continue
        if orientation == "after":
            out[(a, b)] = out.get((a, b), 0.0) + x
        elif orientation == "before":
            out[(b, a)] = out.get((b, a), 0.0) + x
        elif orientation == "symmetric":
            out[(a, b)] = out.get((a, b), 0.0) + x
            out[(b, a)] = out.get((b, a), 0.0) + x
        else:
            out[(a, "post_" + b)] = out.get((a, "post_" + b), 0.0) + x
            out[(b, "pre_" + a)] = out.get((b, "pre_" + a), 0.0) + x
    return out


PRUNINGS = [("none", {}, None, False), ("ignore-b", {"ignored_tokens": ["b"]}, None, False),
            ("mask-b", {"ignored_tokens": ["b"]}, "M", False), ("mask-b-nullify", {"ignored_tokens": ["b"]}, "M", True)]


def run_case(case):
    import vectorizers as V
    items = [(tuple(p), list(l)) for p, l in case["items"]]
    radius, kernel, orient = case["radius"], case["kernel"], case["orientation"]
    kargs = case.get("kargs") or {}
    pname, pkw, mask, nullify = PRUNINGS[case["pruning"]]
    all_labels = [l for _, ls in items for l in ls]
    kept = set(all_labels) - set(pkw.get("ignored_tokens", []))
    if mask is None and not kept:
        return res(rej=True, out="empty-vocabulary")
    exp = reference(items, radius, kernel, orient, kept, mask, nullify, kargs)
    labels = sorted(kept) + ([mask] if mask is not None else [])
    X = [make_item(p, l) for p, l in items]
    kw = dict(window_radius=radius, kernel_function=kernel, window_orientation=orient)
    if kargs:
        kw["kernel_args"] = dict(kargs)
    if "ignored_tokens" in pkw:
        kw["ignored_tokens"] = set(pkw["ignored_tokens"])
    if mask is not None:
        kw.update(mask_string=mask, nullify_mask=nullify)
    v = []
    try:
        est = V.LabelledTreeCooccurrenceVectorizer(**kw)
        mat = est.fit_transform(X)
    except Exception as e:
        return res([viol("exception:%s:%s" % (type(e).__name__, pname), "fit_transform raised %r" % (e,))], out="exc")
    want_dict = {t: i for i, t in enumerate(labels)}
    if dict(est.token_label_dictionary_) != want_dict:
        v.append(viol("vocabulary:%s" % pname, "token_label_dictionary_ %r expected %r" % (dict(est.token_label_dictionary_), want_dict)))
        return res(v, out="vocab")
    ncols = len(labels) * (2 if orient == "directional" else 1)
    if mat.shape != (len(labels), ncols):
        v.append(viol("shape", "shape %s expected %s" % (mat.shape, (len(labels), ncols))))
    else:
        got = R.matrix_to_cells(mat, est.token_index_dictionary_, est.column_index_dictionary_)
        bad = R.compare_cells(got, exp, rtol=1e-6, atol=1e-7)
        if bad:
            v.append(viol("walk-counts:%s:%s" % (pname, orient), "(cell, got, expected): %s" % (bad,), observed=sorted(got.items(), key=repr), expected=sorted(exp.items(), key=repr)))
        # transform of the same data agrees with fit_transform
        try:
            tm = est.transform(X)
            tg = R.matrix_to_cells(tm, est.token_index_dictionary_, est.column_index_dictionary_)
            if tm.shape != mat.shape or R.compare_cells(tg, exp, rtol=1e-6, atol=1e-7):
                v.append(viol("transform-differs:%s" % pname, "transform(X) differs from the reference", observed=sorted(tg.items(), key=repr), expected=sorted(exp.items(), key=repr)))
        except Exception as e:
            v.append(viol("transform-exception:%s:%s" % (type(e).__name__, pname), "transform raised %r" % (e,)))
        # transform of NEW data (other shapes, deeper trees than any seen in fit, labels outside the fitted vocabulary)
        if case.get("test") and not v:
            titems = [(tuple(p), list(l)) for p, l in case["test"]]
            texp = reference(titems, radius, kernel, orient, kept, mask, nullify, kargs)
            try:
                tm = est.transform([make_item(p, l) for p, l in titems])
                tg = R.matrix_to_cells(tm, est.token_index_dictionary_, est.column_index_dictionary_)
                if tm.shape != mat.shape or R.compare_cells(tg, texp, rtol=1e-6, atol=1e-7):
                    v.append(viol("transform-new-data:%s:%s" % (pname, orient), "fit on %s, transform(%s): (cell, got, expected) %s" % (
                        items, titems, R.compare_cells(tg, texp, rtol=1e-6, atol=1e-7)), observed=sorted(tg.items(), key=repr), expected=sorted(texp.items(), key=repr)))
            except Exception as e:
                v.append(viol("transform-new-data-exception:%s:%s" % (type(e).__name__, pname), "fit on %s, transform(%s) raised %r" % (items, titems, e)))
            return res(v, nt=repr(case) if texp else None, out="new-data-cells=%d" % min(len(texp), 9))
    return res(v, nt=repr(case) if exp else None, out="cells=%d" % min(len(exp), 9))


def all_items(nmax, alphabet):
    out = []
    for n in range(1, nmax + 1):
        for parents in forests(n):
            for labels in itertools.product(alphabet, repeat=n):
                out.append((list(parents), list(labels)))
    return out


def _cases(tier):
    nmax, alpha = (4, "ab") if tier == "quick" else (5, "ab")
    singles = all_items(nmax, alpha)
    small = all_items(2, "ab") + all_items(3, "ab")[::5]
    cfgs = [(r, k, o) for r in (1, 2, 3) for k in ("flat", "harmonic", "geometric") for o in ("after", "before", "symmetric", "directional")]
    for (r, k, o) in cfgs:
        for pr in range(len(PRUNINGS)):
            if tier == "quick" and k == "geometric" and pr in (1, 3):
                continue
            for it in singles:
                yield {"items": [it], "radius": r, "kernel": k, "orientation": o, "pruning": pr}
    for (r, k, o) in cfgs[::5]:
        for pr in range(len(PRUNINGS)):
            for a, b in itertools.product(small, repeat=2):
                yield {"items": [a, b], "radius": r, "kernel": k, "orientation": o, "pruning": pr}
    # kernel arguments: offsets (weights with leading / interior zeros) and normalisation, on deeper trees
    deep = [it for it in all_items(nmax, alpha) if len(it[0]) >= 3][:: (3 if tier == "quick" else 1)]
    for (r, k, kargs) in ((3, "flat", {"offset": 1}), (4, "flat", {"offset": 2}), (4, "harmonic", {"offset": 2}), (3, "geometric", {"normalize": True}), (4, "harmonic", {"offset": 3, "normalize": True})):
        for o in ("after", "directional", "symmetric"):
            for pr in (0, 2):
                for it in deep:
                    yield {"items": [it], "radius": r, "kernel": k, "orientation": o, "pruning": pr, "kargs": kargs}
    # fit on shallow items, transform other (deeper, wider, partly unseen-label) items: the fitted state must not cap what
    # transform counts
    fits = [[([-1, 0], ["a", "b"])], [([-1, 0, 1], ["a", "b", "a"])], [([-1], ["a"]), ([-1, -1], ["b", "a"])]]
    news = [it for it in all_items(nmax, alpha) if len(it[0]) == nmax] + [it for it in all_items(3, "abc") if "c" in it[1]][:: (2 if tier == "quick" else 1)]
    for (r, k, o) in [(3, "flat", "after"), (3, "harmonic", "symmetric"), (4, "flat", "directional"), (2, "geometric", "before")]:
        for pr in (0, 2):
            for f in fits:
                for it in news:
                    yield {"items": f, "test": [it], "radius": r, "kernel": k, "orientation": o, "pruning": pr}
    if tier != "quick":
        for it in all_items(3, "abc"):
            for (r, k, o) in cfgs[::3]:
                yield {"items": [it], "radius": r, "kernel": k, "orientation": o, "pruning": 0}


def run_path(case):
    """On path graphs the tree vectorizer coincides with TokenCooccurrenceVectorizer."""
    import vectorizers as V
    seqs = [list(s) for s in case["seqs"]]
    if not any(seqs):
        return res(rej=True, out="no-tokens")
    radius, kernel, orient = case["radius"], case["kernel"], case["orientation"]
    X = [make_item([-1] + list(range(len(s) - 1)), s) for s in seqs if len(s) > 0]
    try:
        t = V.LabelledTreeCooccurrenceVectorizer(window_radius=radius, kernel_function=kernel, window_orientation=orient).fit_transform(X)
        k = V.TokenCooccurrenceVectorizer(window_radii=radius, kernel_functions=kernel, window_orientations=orient, normalize_windows=False).fit_transform(seqs)
    except Exception as e:
        return res([viol("path-exception:%s" % type(e).__name__, "raised %r" % (e,))])
    v = []
    if t.shape != k.shape or not np.allclose(t.toarray(), k.toarray(), rtol=1e-5, atol=1e-7):
        v.append(viol("path-differs-from-token-vectorizer:%s" % orient, "tree %s token %s" % (t.toarray().tolist(), k.toarray().tolist())))
    return res(v, nt=repr(case) if k.nnz else None, out="ok")


def _path_cases(tier):
    s = sigma("ab", 4) if tier == "quick" else sigma("abc", 4)
    for r in (1, 2, 3):
        for kern in ("flat", "harmonic", "geometric"):
            for o in ("after", "before", "directional"):
                for a, b in itertools.product(s, repeat=2):
                    if tier == "quick" and len(a) + len(b) > 6:
                        continue
                    yield {"seqs": [a, b], "radius": r, "kernel": kern, "orientation": o}


def subchecks(tier, seed):
    g1 = lambda: _cases(tier)
    g2 = lambda: _path_cases(tier)
    return [
        Sub("tree_walks", "I", g1, run_case, total=sum(1 for _ in g1()),
            describe="all forests <= 4(5) nodes x labelings {a,b} (single items; pairs of small items) x radius{1,2,3} x kernel x3 x orientation x4 x {none, ignore b, mask b, mask+nullify}",
            nontrivial_rule="reference has a non-zero cell"),
        Sub("path_graphs", "I", g2, run_path, total=sum(1 for _ in g2()),
            describe="pairs of sequences over {a,b} (<=4) as path graphs vs the real TokenCooccurrenceVectorizer (normalize_windows=False)",
            nontrivial_rule="token matrix non-zero"),
    ]
