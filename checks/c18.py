"""C18 - distances are finite, symmetric, zero on proportional inputs; sparse = dense."""
from __future__ import annotations

import itertools
import math

import numpy as np

from vmc.core import Sub, res, viol

PROPERTY = "C18"
LEVEL_TEXT = ("every pair (and, on a sub-grid, every triple) of vectors from a value grid spanning nine orders of magnitude, every proportional pair "
              "(x, kx) and every sparse encoding (minimal / with explicit zeros) is evaluated on the real functions and checked against the stated "
              "properties and a float64 definition; bounded-exhaustive over the grid, no claim outside it")
LEVEL_NOTE = "value grid {0,1,2,3,0.1,1e-3,1e6}, dimension <= 3 (4 thorough); float64 definitions written in the check; interpreted and compiled execution both enumerated"
TECHNIQUE = "bounded exhaustive input enumeration of the real functions vs definitions (explicit-state explorer, interpreted + compiled)"
LEVEL = "exploration"
RULE = "all pairs over the grid; non-trivial = both vectors have positive mass and differ"
ASSUMPTIONS = ["sparse = dense compared to 1e-5 relative + 1e-6 absolute (float32 data)", "triangle inequality slack 1e-7"]

G = [0.0, 1.0, 2.0, 3.0, 0.1, 1e-3, 1e6]
KS = [2.0, 3.0, 5.0, 7.0, 10.0, 49.0, 0.1, 1.0 / 3.0, 1e-3]
DENSE = ["hellinger", "total_variation", "kantorovich1d", "jensen_shannon_divergence", "symmetric_kl_divergence"]
SPARSE = {"hellinger": "sparse_hellinger", "total_variation": "sparse_total_variation",
          "jensen_shannon_divergence": "sparse_jensen_shannon_divergence",
          "symmetric_kl_divergence": "sparse_symmetric_kl_divergence"}


def vectors(d):
    return [v for v in itertools.product(G, repeat=d) if sum(v) > 0]


def ref_value(name, x, y):
    sx, sy = math.fsum(x), math.fsum(y)
    p = [a / sx for a in x]
    q = [b / sy for b in y]
    if name == "hellinger":
        bc = math.fsum(math.sqrt(a * b) for a, b in zip(p, q))
        return math.sqrt(max(0.0, 1.0 - bc))
    if name == "total_variation":
        return 0.5 * math.fsum(abs(a - b) for a, b in zip(p, q))
    if name == "kantorovich1d":
        ca = cb = 0.0
        tot = 0.0
        for a, b in zip(p, q):
            ca += a
            cb += b
            tot += abs(ca - cb)
        return tot
    return None


def sparse_encodings(x):
    """(indices, data) encodings of a dense vector: minimal, and with every zero stored explicitly."""
    idx = [i for i, a in enumerate(x) if a != 0]
    out = [(np.array(idx, dtype=np.int32), np.array([x[i] for i in idx], dtype=np.float32))]
    if len(idx) < len(x):
        out.append((np.arange(len(x), dtype=np.int32), np.array(x, dtype=np.float32)))
    return out


def run_pair(case):
    from vectorizers import distances as D
    x, y = case["x"], case["y"]
    xa, ya = np.array(x, dtype=np.float64), np.array(y, dtype=np.float64)
    v = []
    prop = case.get("k") is not None
    tiny = ":mass<1e-3" if min(sum(x), sum(y)) < 1e-3 else ""
    for name in DENSE:
        f = getattr(D, name)
        try:
            # the SAME array objects are used for both orders, as a caller comparing d(x,y) with d(y,x) would: a function
            # that alters its arguments makes the second value wrong
            d1 = float(f(xa, ya))
            d2 = float(f(ya, xa))
        except Exception as e:
            v.append(viol("exception:%s:%s" % (name, type(e).__name__), "%s(%s,%s) raised %r" % (name, x, y, e)))
            continue
        finally:
            if xa.tolist() != [float(a) for a in x] or ya.tolist() != [float(b) for b in y]:
                v.append(viol("argument-modified:%s" % name, "%s changed its arguments: x=%s is now %s, y=%s is now %s" % (name, x, xa.tolist(), y, ya.tolist())))
                xa, ya = np.array(x, dtype=np.float64), np.array(y, dtype=np.float64)
        if not math.isfinite(d1) or not math.isfinite(d2):
            v.append(viol("not-finite:%s%s" % (name, ":proportional" if prop else ""), "%s(%s, %s) = %r" % (name, x, y, d1)))
            continue
        if d1 < -1e-12:
            v.append(viol("negative:%s" % name, "%s(%s, %s) = %r" % (name, x, y, d1)))
        if abs(d1 - d2) > 1e-9 * max(1.0, abs(d1)):
            v.append(viol("asymmetric:%s" % name, "%s(x,y)=%r but %s(y,x)=%r for x=%s y=%s" % (name, d1, name, d2, x, y)))
        if prop and abs(d1) > 1e-6:
            v.append(viol("proportional-nonzero:%s%s" % (name, tiny), "%s(%s, %s*x) = %r" % (name, x, case["k"], d1)))
        if name in ("hellinger", "total_variation") and not (-1e-12 <= d1 <= 1 + 1e-9):
            v.append(viol("range:%s" % name, "%s(%s, %s) = %r outside [0,1]" % (name, x, y, d1)))
        r = ref_value(name, x, y)
        if r is not None and abs(d1 - r) > 1e-6 + 1e-6 * abs(r):
            # near BC = 1 the square root amplifies rounding: compare the squares for hellinger
            if not (name == "hellinger" and abs(d1 * d1 - r * r) <= 1e-9):
                v.append(viol("definition:%s" % name, "%s(%s, %s) = %r, definition gives %r" % (name, x, y, d1, r)))
        # sparse variants on every encoding
        if name in SPARSE:
            g = getattr(D, SPARSE[name])
            x32 = np.array(x, dtype=np.float32).astype(np.float64)
            y32 = np.array(y, dtype=np.float32).astype(np.float64)
            dd = float(f(x32, y32))
            for (i1, a1) in sparse_encodings(x):
                for (i2, a2) in sparse_encodings(y):
                    try:
                        s = float(g(i1.copy(), a1.copy(), i2.copy(), a2.copy()))
                    except Exception as e:
                        v.append(viol("exception:%s:%s" % (SPARSE[name], type(e).__name__), "raised %r on %s %s" % (e, x, y)))
                        continue
                    tol = 1e-5 * max(abs(dd), abs(s)) + 1e-6
                    if name == "hellinger":
                        ok = abs(s - dd) <= tol or abs(s * s - dd * dd) <= 1e-6
                    else:
                        ok = abs(s - dd) <= tol
                    if not math.isfinite(s) or not ok:
                        v.append(viol("sparse-differs:%s%s" % (name, tiny), "%s=%r but dense %s=%r on x=%s y=%s (encodings %s / %s)" % (
                            SPARSE[name], s, name, dd, x, y, i1.tolist(), i2.tolist())))
    # sparse arithmetic helpers vs dense arithmetic
    for (i1, a1) in sparse_encodings(x):
        for (i2, a2) in sparse_encodings(y):
            for hname, op in (("sparse_sum", lambda a, b: a + b), ("sparse_diff", lambda a, b: a - b), ("sparse_mul", lambda a, b: a * b)):
                h = getattr(D, hname)
                try:
                    ri, rd = h(i1.copy(), a1.copy(), i2.copy(), a2.copy())
                except Exception as e:
                    v.append(viol("exception:%s:%s" % (hname, type(e).__name__), "raised %r on %s %s" % (e, x, y)))
                    continue
                dense = op(np.array(x, dtype=np.float32), np.array(y, dtype=np.float32))
                want = {i: float(val) for i, val in enumerate(dense) if val != 0}
                got = {}
                for i, val in zip(np.asarray(ri).tolist(), np.asarray(rd).tolist()):
                    got[i] = got.get(i, 0.0) + val
                same_idx = sorted(got) == sorted(want) and len(ri) == len(want)
                same_val = same_idx and all(abs(got[i] - want[i]) <= 1e-6 * max(1.0, abs(want[i])) for i in want)
                if not same_idx:
                    v.append(viol("helper-indices:%s" % hname, "%s indices %s, dense arithmetic non-zeros at %s (x=%s y=%s, encodings %s/%s)" % (
                        hname, np.asarray(ri).tolist(), sorted(want), x, y, i1.tolist(), i2.tolist())))
                elif not same_val:
                    v.append(viol("helper-values:%s" % hname, "%s values %s, expected %s" % (hname, got, want)))
    nt = (tuple(x), tuple(y)) if x != y else None
    return res(v, nt=nt, out="prop" if prop else "pair")


def run_triple(case):
    from vectorizers import distances as D
    x, y, z = (np.array(case[k], dtype=np.float64) for k in ("x", "y", "z"))
    v = []
    for name in ("hellinger", "total_variation", "kantorovich1d"):
        f = getattr(D, name)
        dxy, dyz, dxz = float(f(x, y)), float(f(y, z)), float(f(x, z))       # the same array objects throughout
        if any(a.tolist() != [float(t) for t in case[k]] for a, k in ((x, "x"), (y, "y"), (z, "z"))):
            v.append(viol("argument-modified:%s" % name, "%s changed one of its arguments (%s %s %s)" % (name, case["x"], case["y"], case["z"])))
            x, y, z = (np.array(case[k], dtype=np.float64) for k in ("x", "y", "z"))
        if not all(map(math.isfinite, (dxy, dyz, dxz))):
            continue  # reported by the pair sub-check
        if dxz > dxy + dyz + 1e-7:
            v.append(viol("triangle:%s" % name, "%s: d(x,z)=%r > d(x,y)+d(y,z)=%r for %s %s %s" % (name, dxz, dxy + dyz, case["x"], case["y"], case["z"])))
    return res(v, nt=(tuple(case["x"]), tuple(case["y"]), tuple(case["z"])), out="t")


def _pairs(dmax):
    for d in range(1, dmax + 1):
        vs = vectors(d)
        for x in vs:
            for y in vs:
                yield {"x": list(x), "y": list(y)}


def _props(dmax):
    for d in range(1, dmax + 1):
        for x in vectors(d):
            for k in KS:
                yield {"x": list(x), "y": [k * a for a in x], "k": k}


def _triples(tier):
    sub = [0.0, 1.0, 3.0, 1e-3] if tier == "quick" else [0.0, 1.0, 2.0, 0.1, 1e6]
    vs = [v for v in itertools.product(sub, repeat=3) if sum(v) > 0]
    if tier == "quick":
        vs = vs[::2]
    for x in vs:
        for y in vs:
            for z in vs:
                yield {"x": list(x), "y": list(y), "z": list(z)}


def subchecks(tier, seed):
    dmax = 3 if tier == "quick" else 4
    subs = []
    for mode in ("I", "N"):
        dm = dmax if mode == "I" else min(dmax, 3)
        gp = (lambda d: (lambda: _pairs(d)))(dm if not (tier == "quick" and mode == "N") else 2)
        subs.append(Sub("pairs_%s" % mode, mode, gp, run_pair, total=sum(1 for _ in gp()),
                        describe="all ordered pairs of non-zero vectors over the grid %s, dimension 1..%d" % (G, dm),
                        nontrivial_rule="x != y"))
        gq = (lambda d: (lambda: _props(d)))(dm)
        subs.append(Sub("proportional_%s" % mode, mode, gq, run_pair, total=sum(1 for _ in gq()),
                        describe="all (x, k*x), k in %s, x over the grid, dimension 1..%d" % (KS, dm), nontrivial_rule="always (k != 1)"))
    gt = lambda: _triples(tier)
    subs.append(Sub("triples_I", "I", gt, run_triple, total=sum(1 for _ in gt()),
                    describe="all ordered triples over a sub-grid of 3-vectors: triangle inequality for hellinger, total_variation, kantorovich1d",
                    nontrivial_rule="every triple"))
    return subs
