"""C13 - calls are free of side effects, repeatable, and leave nothing behind."""
from __future__ import annotations

import itertools
import os

import numpy as np
import scipy.sparse as sp

from vmc.core import Sub, res, viol
from vmc import estimators as E
from vmc.snap import snap, digest

PROPERTY = "C13"
LEVEL_TEXT = ("explicit-state search over call histories fit / fit_transform / transform on an input menu (two different inputs and one that makes the call "
              "raise) up to depth 3 (5 thorough), plus one closing transform from every state of the last level, for every estimator: histories reaching the same fitted state (digest of every attribute) are merged; on "
              "every transition the arguments and constructor parameter objects are compared with deep snapshots, the worker's private TMPDIR and the "
              "cachedir are listed, and every transform result is compared with the same call on a fresh estimator fitted by the last fit alone; two "
              "fits with the same integer random_state must agree to 1e-9.  Block-wise Wasserstein/Sinkhorn fits are additionally run with an "
              "exception injected at the k-th block kernel / randomized_svd / memmap / os.remove call, for every k, and with an invalid distribution "
              "in block j, for every j")
LEVEL_NOTE = "state digest covers every instance attribute, so merging histories is sound for anything transform can read; tempdir oracle is a directory listing; fault points = every call index seen in the fault-free run"
TECHNIQUE = "explicit-state BFS over call histories of the real estimators + exhaustive k-th-call fault injection (hand-written explorer)"
LEVEL = "model_checking"
RULE = "all histories up to the depth bound; non-trivial = history with a transform after at least two other calls, or a fault that fired"
MC_NOTE = "states = distinct estimator digests reached; transitions = real fit/transform calls executed; faults = (site, k) pairs injected"
ASSUMPTIONS = ["temporary files are looked for under TMPDIR (private per worker) and under the estimator's cachedir"]


def listing(*dirs):
    out = []
    for d in dirs:
        if d and os.path.isdir(d):
            for root, ds, fs in os.walk(d):
                for n in ds + fs:
                    out.append(os.path.relpath(os.path.join(root, n), d))
    return sorted(out)


def tmpdir():
    return os.environ.get("VMC_WORKER_TMP") or os.environ.get("TMPDIR")


def params_of(est):
    """constructor parameter objects as stored on the estimator (get_params is not usable on every class)"""
    import inspect
    out = {}
    for name in inspect.signature(type(est).__init__).parameters:
        if name != "self" and hasattr(est, name):
            out[name] = getattr(est, name)
    return out


class Bad:
    """placeholder for an input that makes the call raise part-way"""


def menu(spec, cfg, tier):
    trains = spec.train_sets(cfg, tier)
    pool = spec.pool(cfg, tier)
    X1 = trains[0]
    X2 = trains[1] if len(trains) > 1 else pool[: max(2, len(pool) - 1)]
    return [X1, X2, "BAD"]


def bad_items(spec, cfg, X1):
    n = spec.name
    if n in ("wasserstein", "sinkhorn", "wasserstein_lil"):
        return list(X1[:2]) + [[1, -1, 0, 0.5]] + list(X1[2:])      # an invalid distribution in a later position
    if n in ("info_weight", "row_denoise", "count_feature_compression", "approx_wasserstein") or n.startswith(("info_weight", "row_denoise")):
        return None
    if n in ("ngram", "skipgram"):
        return list(X1) + [7]         # not a sequence
    if n in ("lz", "bpe"):
        return list(X1) + [7]
    if n in ("histogram", "kde"):
        return list(X1) + ["x"]
    return None


def call(spec, est, op, items, cfg):
    if items is None:
        raise TypeError("bad input")
    try:
        spec.pack(items, cfg)
    except Exception:
        return getattr(est, op)(items)
    if op == "fit":
        return E.fit(spec, est, items, cfg)
    if op == "fit_transform":
        return E.fit_transform(spec, est, items, cfg)
    return E.transform(spec, est, items, cfg)


def run_histories(case):
    spec = E.BY_NAME[case["spec"]]
    tier = case["tier"]
    cfg = spec.configs(tier)[case["cfg"]]
    depth = case["depth"]
    inputs = menu(spec, cfg, tier)
    inputs[2] = bad_items(spec, cfg, inputs[0])
    events = [(op, i) for op in ("fit", "fit_transform", "transform") for i in range(3)]
    v = {}
    states, transitions = 0, 0
    seen = set()
    fresh_cache = {}

    def fresh_transform(last_fit, i):
        key = (last_fit, i)
        if key not in fresh_cache:
            e = spec.make(cfg)
            try:
                call(spec, e, last_fit[0], inputs[last_fit[1]], cfg)
                out = call(spec, e, "transform", inputs[i], cfg)
                fresh_cache[key] = ("ok", spec.rows(out, len(inputs[i])))
            except Exception as ex:
                fresh_cache[key] = ("exc", type(ex).__name__)
        return fresh_cache[key]

    def replay(hist):
        est = spec.make(cfg)
        last_fit = None
        for (op, i) in hist:
            try:
                call(spec, est, op, inputs[i], cfg)
                if op != "transform":
                    last_fit = (op, i)
            except Exception:
                if op != "transform":
                    last_fit = ("failed", op, i)
        return est, last_fit

    frontier = [()]
    tmp0 = listing(tmpdir())
    interesting = False
    for d in range(depth + 1):
        nxt = []
        # after the last full level every reached state is closed by each transform (the observation), so that a history
        # fit(X1), transform, fit(X2) | transform - stale state surviving a refit - is within the quick bound too
        closing = (d == depth)
        for hist in frontier:
            for (op, i) in (events if not closing else [e for e in events if e[0] == "transform"]):
                est, last_fit = replay(hist)
                if op == "transform" and (last_fit is None or last_fit[0] == "failed"):
                    continue     # transform on an unfitted / half-fitted estimator: outside the property
                items = inputs[i]
                try:
                    X, kw = spec.pack(items, cfg) if items is not None else (None, {})
                except Exception:
                    X, kw = items, {}      # the malformed input is handed over as it is
                arg_before = snap((X, kw))
                params_before = snap(params_of(est))
                transitions += 1
                raised = None
                out = None
                try:
                    if op == "fit":
                        k2 = dict(kw, **(spec.fit_kwargs() if hasattr(spec, "fit_kwargs") else {}))
                        out = est.fit(X, **k2)
                    elif op == "fit_transform":
                        k2 = dict(kw, **(spec.fit_kwargs() if hasattr(spec, "fit_kwargs") else {}))
                        out = est.fit_transform(X, **k2)
                    else:
                        out = est.transform(X, **kw)
                except Exception as ex:
                    raised = ex
                # (i) arguments and parameter objects untouched
                if snap((X, kw)) != arg_before:
                    sig = "argument-modified:%s:%s" % (spec.name, op)
                    v.setdefault(sig, viol(sig, "%s(%s) modified its argument (history %s, cfg %s)" % (op, "X%d" % (i + 1), list(hist), cfg)))
                if snap(params_of(est)) != params_before:
                    sig = "parameter-modified:%s:%s" % (spec.name, op)
                    v.setdefault(sig, viol(sig, "%s modified a constructor parameter object (history %s)" % (op, list(hist))))
                # (iii) nothing left behind
                now = listing(tmpdir())
                if now != tmp0:
                    sig = "tmp-left-behind:%s:%s:%s" % (spec.name, op, "raised" if raised else "returned")
                    v.setdefault(sig, viol(sig, "after %s %s the temporary directory contains %s" % (op, "raised" if raised else "returned", [x for x in now if x not in tmp0][:5])))
                    tmp0 = now
                # (ii) transform result equals the one of a fresh estimator fitted by the last fit alone
                if op == "transform" and last_fit is not None:
                    want = fresh_transform(last_fit, i)
                    if raised is None and want[0] == "ok":
                        rows = spec.rows(out, len(items))
                        if len(rows) != len(want[1]) or any(not spec.same(a, b) for a, b in zip(rows, want[1])):
                            sig = "history-dependent-transform:%s" % spec.name
                            v.setdefault(sig, viol(sig, "after history %s, transform(X%d) differs from the same call on a fresh estimator fitted by %s" % (list(hist), i + 1, last_fit)))
                    elif (raised is None) != (want[0] == "ok"):
                        sig = "history-dependent-exception:%s" % spec.name
                        v.setdefault(sig, viol(sig, "after history %s, transform(X%d) %s but on a fresh estimator it %s" % (
                            list(hist), i + 1, "raised %r" % raised if raised else "returned", want)))
                    if len(hist) >= 1:
                        interesting = True
                h2 = hist + ((op, i),)
                try:
                    key = (digest(est), last_fit if op == "transform" else ((op, i) if raised is None else ("failed", op, i)))
                except Exception:
                    key = h2
                if key in seen:
                    continue
                seen.add(key)
                states += 1
                nxt.append(h2)
        frontier = nxt
    # (iv) reproducibility of fits with the same integer random_state
    for i in (0, 1):
        try:
            a, b = spec.make(cfg), spec.make(cfg)
            ra = spec.rows(call(spec, a, "fit_transform", inputs[i], cfg), len(inputs[i]))
            rb = spec.rows(call(spec, b, "fit_transform", inputs[i], cfg), len(inputs[i]))
            if any(not (np.asarray(x).shape == np.asarray(y).shape and (np.asarray(x).dtype.kind in "OUS" and np.asarray(x).tolist() == np.asarray(y).tolist()
                        or np.asarray(x).dtype.kind not in "OUS" and np.allclose(x, y, rtol=1e-9, atol=1e-9, equal_nan=True))) for x, y in zip(ra, rb)):
                sig = "fit-not-reproducible:%s" % spec.name
                v.setdefault(sig, viol(sig, "two fits of X%d with the same parameters give different outputs" % (i + 1)))
        except Exception:
            pass
    return res(list(v.values()), nt=(case["spec"], case["cfg"]) if interesting else None, out=spec.name, st=states, tr=transitions)


def _history_cases(tier):
    for spec in E.ROW_WISE + E.SIDE_EFFECT:
        for ci in range(len(spec.configs(tier))):
            yield {"spec": spec.name, "cfg": ci, "tier": tier, "depth": 3 if tier == "quick" else 5}


# ---------------------------------------------------------------- co-occurrence family / tree: parameter objects and history

def run_cooc_history(case):
    import vectorizers as V
    from checks.c03 import make_corpus
    from checks.c15 import make_item
    kind = case["kind"]
    v = {}
    if kind == "tree":
        fmt = case.get("fmt", "csr")
        def mk_in(docs):
            out = []
            for s in docs:
                if s:
                    A, labels = make_item([-1] + list(range(len(s) - 1)), list(s))
                    out.append((A.asformat(fmt), labels))
            return out
        cls = V.LabelledTreeCooccurrenceVectorizer
        base_kw = dict(window_radius=2)
        if case.get("ignore"):
            base_kw["ignored_tokens"] = {"b"}
    else:
        ckind = kind if kind in ("token", "timed", "multiset", "ngram") else "token"
        mk_in = lambda docs: make_corpus(ckind, docs, [[float(j) for j in range(len(d))] for d in docs])
        cls = {"token": V.TokenCooccurrenceVectorizer, "timed": V.TimedTokenCooccurrenceVectorizer, "multiset": V.MultiSetCooccurrenceVectorizer,
               "ngram": V.NgramCooccurrenceVectorizer, "ngramvec": V.NgramVectorizer, "skipgram": V.SkipgramVectorizer}[kind]
        base_kw = dict(window_radii=2) if kind in ("token", "timed", "multiset", "ngram") else {}
    kw = dict(base_kw)
    given = None
    if case["dictionary"]:
        given = {"a": 0, "b": 1, "c": 2}
        kw["token_dictionary"] = given
    if case["mask"]:
        kw["mask_string"] = "M"
        if kind not in ("ngramvec", "skipgram"):
            kw["nullify_mask"] = case["nullify"]
    docs_menu = [case["docs1"], case["docs2"], case["docs3"]]
    if kind == "multiset":
        docs_menu = [["|".join(d) for d in ds] for ds in docs_menu]
    states, transitions = 0, 0
    seen = set()
    frontier = [()]
    events = [(op, i) for op in ("fit", "fit_transform", "transform") for i in range(3)]
    given_before = snap(given)
    fresh = {}

    def replay(hist):
        est = cls(**kw)
        last = None
        for op, i in hist:
            try:
                getattr(est, op)(mk_in(docs_menu[i]))
                if op != "transform":
                    last = (op, i)
            except Exception:
                if op != "transform":
                    last = None
        return est, last

    for d in range(case["depth"]):
        nxt = []
        for hist in frontier:
            for op, i in events:
                est, last = replay(hist)
                if op == "transform" and last is None:
                    continue
                X = mk_in(docs_menu[i])
                before = snap(X)
                transitions += 1
                raised, out = None, None
                try:
                    out = getattr(est, op)(X)
                except Exception as ex:
                    raised = ex
                if snap(X) != before:
                    sig = "argument-modified:%s:%s" % (kind, op)
                    v.setdefault(sig, viol(sig, "%s modified its argument" % op))
                if snap(given) != given_before:
                    sig = "token_dictionary-modified:%s:%s%s" % (kind, op, ":mask" if case["mask"] else "")
                    v.setdefault(sig, viol(sig, "after %s the user's token_dictionary is %r (history %s)" % (op, given, list(hist))))
                    given.clear()
                    given.update({"a": 0, "b": 1, "c": 2})
                if op == "transform" and raised is None:
                    key = (last, i)
                    if key not in fresh:
                        e = cls(**dict(kw, **({"token_dictionary": {"a": 0, "b": 1, "c": 2}} if case["dictionary"] else {})))
                        try:
                            getattr(e, last[0])(mk_in(docs_menu[last[1]]))
                            fresh[key] = e.transform(mk_in(docs_menu[i]))
                        except Exception as ex:
                            fresh[key] = ex
                    want = fresh[key]
                    if isinstance(want, Exception):
                        sig = "history-dependent-exception:%s" % kind
                        v.setdefault(sig, viol(sig, "after %s transform(X%d) returned but raised %r on a fresh estimator" % (list(hist), i + 1, want)))
                    elif out.shape != want.shape or not np.allclose(out.toarray(), want.toarray(), rtol=1e-5, atol=1e-7):
                        sig = "history-dependent-transform:%s" % kind
                        v.setdefault(sig, viol(sig, "after history %s, transform(X%d) differs from a fresh estimator fitted by %s" % (list(hist), i + 1, last)))
                try:
                    key = (digest(est), last if op == "transform" else (op, i, raised is None))
                except Exception:
                    key = hist + ((op, i),)
                if key in seen:
                    continue
                seen.add(key)
                states += 1
                nxt.append(hist + ((op, i),))
        frontier = nxt
    return res(list(v.values()), nt=repr(case), out=kind, st=states, tr=transitions)


def _cooc_history_cases(tier):
    docsets = [(["abca", "bc"], ["cab", "zz", ""], ["a", "b"]), (["aab", "cb"], ["bz"], ["cccc", "ab", "a"])]
    for kind in ("token", "timed", "multiset", "ngram", "tree", "ngramvec", "skipgram"):
        for dictionary in (False, True):
            for mask, nullify in ((False, False), (True, False), (True, True)):
                if kind in ("skipgram",) and mask:
                    continue
                for d1, d2, d3 in docsets:
                    if kind == "tree" and dictionary:
                        continue
                    base = {"kind": kind, "dictionary": dictionary, "mask": mask, "nullify": nullify,
                            "docs1": d1, "docs2": d2, "docs3": d3, "depth": 2 if tier == "quick" else 3}
                    if kind == "tree":
                        # adjacency matrices in every sparse format, with and without a pruning setting that removes nodes
                        for fmt in ("csr", "csc", "coo", "lil"):
                            for ignore in (False, True):
                                yield dict(base, fmt=fmt, ignore=ignore)
                    else:
                        yield base


# ---------------------------------------------------------------- fault injection into block-wise fits

FAULT_SITES = ["lot_vectors_sparse_internal", "lot_vectors_dense_internal", "sinkhorn_vectors_sparse_internal", "randomized_svd", "memmap", "remove"]


class KthFault:
    def __init__(self, fn, k):
        self.fn, self.k, self.calls, self.fired = fn, k, 0, False

    def __call__(self, *a, **kw):
        self.calls += 1
        if self.calls == self.k:
            self.fired = True
            raise RuntimeError("injected fault at call %d" % self.k)
        return self.fn(*a, **kw)


def _blockwise(case, cachedir):
    import vectorizers as V
    rows = [[1, 2, 0, 1], [0, 1, 1, 0], [3, 0, 0, 1], [1, 1, 1, 1], [0, 0, 2, 1]]
    if case.get("bad_row") is not None:
        rows = list(rows)
        rows[case["bad_row"]] = [1, -1, 0, 0.5]
    vec = E.VEC4.copy()
    path = case["path"]
    ms = str(case["block"] * 6 * 8)
    if path == "sparse":
        est = V.WassersteinVectorizer(n_components=3, reference_size=3, random_state=3, memory_size=ms, cachedir=cachedir)
        return est, (sp.csr_matrix(np.array(rows, dtype=np.float64)),), {"vectors": vec}
    if path == "sinkhorn":
        est = V.SinkhornVectorizer(n_components=3, reference_size=3, random_state=3, memory_size=ms, cachedir=cachedir)
        return est, (sp.csr_matrix(np.array(rows, dtype=np.float64)),), {"vectors": vec}
    X, vs = E.WassersteinLilSpec().pack(rows, {})
    if path == "lil":
        est = V.WassersteinVectorizer(n_components=3, reference_size=3, random_state=3, memory_size=ms, cachedir=cachedir, input_method="lil")
        return est, (X,), vs
    est = V.WassersteinVectorizer(n_components=3, reference_size=3, random_state=3, memory_size=ms, cachedir=cachedir, input_method="generator",
                                  generator_vector_dim=2, generator_n_distributions=len(rows))
    ref = np.array([[1.0, 0.5], [0.5, 1.0], [1.0, 1.0]])
    return est, ((x for x in X),), {"vectors": (v for v in vs["vectors"]), "reference_vectors": ref}


def run_fault(case):
    from vectorizers import linear_optimal_transport as LOT
    import tempfile
    base = tmpdir()
    cachedir = None
    if case["use_cachedir"]:
        cachedir = os.path.join(base, "cache-%d" % os.getpid())
        os.makedirs(cachedir, exist_ok=True)
    before = listing(base)
    site = case["site"]
    k = case["k"]
    targets = {"lot_vectors_sparse_internal": (LOT, "lot_vectors_sparse_internal"), "lot_vectors_dense_internal": (LOT, "lot_vectors_dense_internal"),
               "sinkhorn_vectors_sparse_internal": (LOT, "sinkhorn_vectors_sparse_internal"), "randomized_svd": (LOT, "randomized_svd"),
               "memmap": (LOT.np, "memmap"), "remove": (LOT.os, "remove")}
    v = []
    fault = None
    saved = None
    if site != "none":
        mod, name = targets[site]
        saved = getattr(mod, name)
        fault = KthFault(saved, k)
        setattr(mod, name, fault)
    raised = None
    try:
        est, args, kw = _blockwise(case, cachedir)
        est.fit(*args, **kw)
    except Exception as ex:
        raised = ex
    finally:
        if saved is not None:
            setattr(mod, name, saved)
    after = listing(base)
    fired = bool(fault and fault.fired) or (case.get("bad_row") is not None and raised is not None)
    left = [x for x in after if x not in before]
    if left:
        kind = "dir-only" if all(not x.endswith(".dat") for x in left) else "dir+file"
        v.append(viol("tmp-left-behind:%s:%s:%s" % (case["path"], "raised" if raised else "returned", kind),
                      "after a block-wise fit (%s path, %s) that %s, %s remain under %s" % (
                          case["path"], "fault at %s call %d" % (site, k) if site != "none" else ("invalid distribution in row %s" % case.get("bad_row")),
                          "raised %r" % raised if raised else "returned", left, "cachedir" if cachedir else "TMPDIR")))
        # clean up so that later cases start from the same listing
        import shutil
        for x in left:
            p = os.path.join(base, x)
            if os.path.isdir(p):
                shutil.rmtree(p, ignore_errors=True)
            elif os.path.exists(p):
                os.remove(p)
    if site != "none" and not fired and raised is not None:
        v.append(viol("unexpected-exception:%s" % case["path"], "fit raised %r without a fault" % (raised,)))
    return res(v, nt=repr(case) if fired or site == "none" else None, out="fired" if fired else "no-fault", st=1, tr=1)


def _fault_cases(tier):
    for path in ("sparse", "lil", "generator", "sinkhorn"):
        for block in ((1, 2, 5) if tier == "quick" else (1, 2, 3, 4, 5)):
            for use_cachedir in (False, True):
                yield {"path": path, "block": block, "site": "none", "k": 0, "use_cachedir": use_cachedir}
                for bad in range(5):
                    yield {"path": path, "block": block, "site": "none", "k": 0, "use_cachedir": use_cachedir, "bad_row": bad}
                for site in FAULT_SITES:
                    for k in range(1, 8 if tier == "quick" else 16):
                        yield {"path": path, "block": block, "site": site, "k": k, "use_cachedir": use_cachedir}


def subchecks(tier, seed):
    g1 = lambda: _history_cases(tier)
    g2 = lambda: _cooc_history_cases(tier)
    g3 = lambda: _fault_cases(tier)
    comp = lambda: (c for c in _history_cases("quick") if c["cfg"] == 0 and c["spec"] in ("ngram", "bpe", "lz", "info_weight", "row_denoise", "wasserstein", "sinkhorn", "kde"))
    compiled = [Sub("call_histories_compiled", "N", comp, run_histories, total=sum(1 for _ in comp()), kind="compiled-traces", shards=sum(1 for _ in comp()),
                    describe="the same history search executed with the compiled kernels for ngram, bpe, lz, info_weight, row_denoise, wasserstein, sinkhorn, kde (first configuration each); transitions = real calls replayed",
                    nontrivial_rule="as for call_histories")]
    return compiled + [
        Sub("call_histories", "I", g1, run_histories, total=sum(1 for _ in g1()), kind="states", shards=sum(1 for _ in g1()),
            describe="BFS over histories of {fit, fit_transform, transform} x {X1, X2, input that raises} to depth 3(4) for every registered estimator x configuration; state = digest of all attributes",
            nontrivial_rule="a transform after at least two earlier calls was compared with a fresh estimator"),
        Sub("cooccurrence_histories", "I", g2, run_cooc_history, total=sum(1 for _ in g2()), kind="states",
            describe="same search for the co-occurrence family, the tree vectorizer, NgramVectorizer and SkipgramVectorizer x {learned, user token_dictionary} x {no mask, mask, mask+nullify}; the user's dictionary object is snapshotted",
            nontrivial_rule="every case"),
        Sub("blockwise_faults", "I", g3, run_fault, total=sum(1 for _ in g3()), kind="faults",
            describe="block-wise fits (sparse / lil / generator / sinkhorn paths, block sizes 1,2,5, TMPDIR and cachedir) x fault at the k-th call of each of 6 sites for k = 1..7(11), and an invalid distribution in row j for every j",
            nontrivial_rule="the injected fault fired (or the fault-free run completed)"),
    ]
