"""C04 - co-occurrence results do not depend on threads, buffer sizes or data volume.

Layers (DESIGN 3/C04):
  a  accumulator as a transition system: BFS over append sequences on the real coo_* functions
     (interpreted mode, threshold patched per configuration), invariant on every reached state.
  a2 the same state graph driven end-to-end through the real numba_build_skip_grams (chain corpora).
  c  chunk boundaries form an ordered partition, for all small length vectors x n_threads.
  b  estimator-level parameter lattice (n_threads x coo_initial_memory) against the reference.
  d  schedules of the dask fan-out under a controlled scheduler (see c04_sched sub-checks).
  e  real threshold volumes in compiled modes.
"""
from __future__ import annotations

import itertools
import math

import numpy as np

from vmc.core import Sub, res, viol

PROPERTY = "C04"
LEVEL_TEXT = "explicit-state BFS of the real accumulator functions (every buffer byte is state) with the invariant 'epilogue sums == reference' on every reached state, for every buffer size the estimators can derive and thresholds {2..5, real}; chunking partition check; estimator-level lattice"
LEVEL_NOTE = "interpreted mode runs the kernels' own source; sizes/conventions are read from the code at run time; schedules at call granularity only"
TECHNIQUE = 'explicit-state BFS over append histories of the real accumulator + exhaustive configuration lattice + controlled-scheduler interleaving exploration'
LEVEL = "model_checking"
RULE = ("explicit-state BFS over append histories of the real accumulator (state = every buffer byte), "
        "plus complete products of corpora x n_threads x coo_initial_memory; a state/case is non-trivial "
        "when a flush, merge or growth actually happened")
MC_NOTE = ("states = distinct full accumulator states reached (BFS, per configuration); transitions = real "
           "coo_append calls; traces_validated = cases replayed through compiled (N/B mode) code")
ASSUMPTIONS = [
    "interpreted mode (NUMBA_DISABLE_JIT=1) executes the same kernel source as compiled mode; bound by N/B-mode replays",
    "scheduling points are calls of coo_append/coo_sum_duplicates/em_update_matrix (call granularity)",
]

KEY_ALPHABET = [  # (row, col) with array_mul = 5 (n_windows=1, n_unique_tokens=4): key = col + 5*row
    (0, 0),  # key 0: indistinguishable from zero-filled buffer words
    (0, 1),
    (0, 3),
    (1, 0),
]
ARRAY_MUL = 5


def _new_coo(n):
    from vectorizers.coo_utils import CooArray
    # the allocation expression used verbatim by all four kernels (asserted against the source in setup)
    return CooArray(
        np.zeros(n, dtype=np.int32),
        np.zeros(n, dtype=np.int32),
        np.zeros(n, dtype=np.float32),
        np.zeros(n, dtype=np.int64),
        np.zeros(1, dtype=np.int64),
        np.zeros(2 * np.int64(np.ceil(np.log2(n))), dtype=np.int64),
        np.zeros(1, dtype=np.int64),
    )


def _copy(coo):
    from vectorizers.coo_utils import CooArray
    return CooArray(*[a.copy() for a in coo])


def _state_key(coo):
    return b"|".join(a.tobytes() for a in coo) + b"#%d#%d" % (coo.row.shape[0], coo.min.shape[0])


def _check_alloc_expression():
    """The driver repeats the kernels' allocation expression; make sure the source still has it."""
    import inspect
    import re
    from vectorizers import token_cooccurrence_vectorizer as t, timed_token_cooccurrence_vectorizer as tt
    from vectorizers import multi_token_cooccurence_vectorizer as m, ngram_token_cooccurence_vectorizer as ng
    pat = re.compile(r"np\.zeros\(2 \* np\.int64\(np\.ceil\(np\.log2\(array_lengths\[i\]\)\)\), dtype=np\.int64\)")
    for mod in (t, tt, m, ng):
        if not pat.search(inspect.getsource(mod)):
            raise RuntimeError("accumulator allocation expression changed in %s; update checks/c04.py" % mod.__name__)


def _epilogue_sums(coo):
    """What the kernels do after the last append, then what _build_coo + sum_duplicates make of it."""
    from vectorizers import coo_utils
    c = _copy(coo)
    coo_utils.coo_sum_duplicates(c)
    coo_utils.merge_all_sum_duplicates(c)
    n = int(c.ind[0])
    if n < 0 or n > c.row.shape[0]:
        raise IndexError("ind=%d outside buffer of %d" % (n, c.row.shape[0]))
    out = {}
    for r, cc, v in zip(c.row[:n].tolist(), c.col[:n].tolist(), c.val[:n].tolist()):
        out[(r, cc)] = out.get((r, cc), 0.0) + v
    return {k: v for k, v in out.items() if v != 0.0}


def _classify(coo_before, exc, got, ref, n, L):
    feats = []
    if n < 20:
        feats.append("buffer<20")
    if exc is not None:
        return "exception:%s:%s" % (type(exc).__name__, ",".join(feats) or "-")
    lost = sorted(k for k in ref if k not in got)
    extra = sorted(k for k in got if k not in ref)
    wrong = sorted(k for k in ref if k in got and got[k] != ref[k])
    kind = "lost" if lost else ("spurious" if extra else "wrong-sum")
    if lost and lost == [(0, 0)] and not extra and not wrong:
        feats.append("only-key0")
    return "%s:%s" % (kind, ",".join(feats) or "-")


def run_accumulator_bfs(case):
    """One configuration: BFS over all append sequences up to `depth` over the key alphabet."""
    from vectorizers import coo_utils
    n, L, depth, vals, convention = case["n"], case["L"], case["depth"], case["vals"], case["convention"]
    saved = coo_utils.COO_QUICKSORT_LIMIT
    coo_utils.COO_QUICKSORT_LIMIT = L if L else saved
    try:
        try:
            init = _new_coo(n)
        except Exception as e:
            return res([viol("alloc-exception:%s" % type(e).__name__,
                             "allocating an accumulator of %d entries raised %r" % (n, e))], out="alloc-exc")
        events = [(r, c, v) for (r, c) in KEY_ALPHABET for v in vals]
        seen = {_state_key(init)}
        frontier = [(init, {}, ())]
        violations = {}
        states = 1
        transitions = 0
        flushes = 0
        grows = 0
        for d in range(depth):
            nxt = []
            for coo, ref, hist in frontier:
                for ei, (r, c, v) in enumerate(events):
                    work = _copy(coo)
                    ref2 = dict(ref)
                    ref2[(r, c)] = ref2.get((r, c), 0.0) + v
                    h2 = hist + (ei,)
                    transitions += 1
                    exc = None
                    got = None
                    before_ind = int(work.ind[0])
                    try:
                        ret = coo_utils.coo_append(work, (r, c, np.float32(v), c + ARRAY_MUL * r))
                        if convention == "rebind":
                            work2 = ret
                        else:           # the multiset kernel drops the return value
                            work2 = work
                        if ret.row.shape[0] != work.row.shape[0]:
                            grows += 1
                        if int(ret.ind[0]) != before_ind + 1:
                            flushes += 1
                        got = _epilogue_sums(work2)
                    except Exception as e:   # IndexError etc. under Python semantics
                        exc = e
                    if exc is not None or got != ref2:
                        sig = _classify(work, exc, got or {}, ref2, n, L)
                        if sig not in violations:
                            violations[sig] = viol(
                                sig,
                                "append history %s (events index %s) on a %d-entry accumulator, threshold %s, %s convention: %s"
                                % ([events[i] for i in h2], list(h2), n, L or "65536", convention,
                                   ("raised %r" % exc) if exc is not None else "epilogue sums differ from the reference"),
                                observed=got, expected=ref2)
                        continue   # do not expand a violating state
                    k = _state_key(work2)
                    if k in seen:
                        continue
                    seen.add(k)
                    states += 1
                    nxt.append((work2, ref2, h2))
            frontier = nxt
        nt = ("n%d-L%s-%s" % (n, L, convention)) if (flushes or grows) else None
        return res(list(violations.values()), nt=nt, out="flush=%d grow=%d" % (min(flushes, 1), min(grows, 1)),
                   st=states, tr=transitions)
    finally:
        coo_utils.COO_QUICKSORT_LIMIT = saved


def conventions():
    """Calling conventions the four kernels really use for coo_append, read from their source:
    'rebind' (coo_data[i] = coo_append(...)) and/or 'dropped' (return value ignored)."""
    import inspect
    import re
    from vectorizers import token_cooccurrence_vectorizer as t, timed_token_cooccurrence_vectorizer as tt
    from vectorizers import multi_token_cooccurence_vectorizer as m, ngram_token_cooccurence_vectorizer as ng
    out = set()
    for mod in (t, tt, m, ng):
        src = inspect.getsource(mod)
        calls = re.findall(r"^(.*)coo_append\(", src, flags=re.M)
        for pre in calls:
            if pre.strip().startswith(("from", "import", "#")) or pre.strip() == "":
                if pre.strip() == "" :
                    out.add("dropped")
                continue
            out.add("rebind" if re.search(r"=\s*$", pre) else "dropped")
    return sorted(out, reverse=True)


def _acc_cases(tier):
    depth_small = 7 if tier == "quick" else 9
    sizes = reachable_sizes()
    ns = sizes[:12] if tier == "quick" else sizes[:32]
    Ls = [2, 3, 4, 5, 0]          # 0 = leave the real threshold (65536 > n): only the full-buffer path
    out = []
    for conv in conventions():
        for L in Ls:
            for n in ns:
                # depth must pass the point where the buffer fills at least twice
                depth = depth_small
                out.append({"n": n, "L": L, "depth": depth, "vals": [1.0], "convention": conv})
    if tier == "thorough":
        for L in (2, 3, 0):
            for n in sizes[:6]:          # only sizes the estimators can derive (see reachable_sizes)
                out.append({"n": n, "L": L, "depth": 6, "vals": [1.0, 0.5], "convention": "rebind"})
    return out



def run_accumulator_compiled(case):
    """Conformance of the interpreted-mode state graph: every append history up to `depth` is replayed on the
    COMPILED accumulator (threshold lowered through the env-guarded hook) and its epilogue sums are compared
    with the reference sums - i.e. every path of the BFS tree is validated against the compiled code."""
    from vectorizers import coo_utils
    n, depth = case["n"], case["depth"]
    if coo_utils.COO_QUICKSORT_LIMIT != 3:
        return res([viol("harness:hook-inactive", "VECTORIZERS_VERIF hook did not lower COO_QUICKSORT_LIMIT (is %r)" % coo_utils.COO_QUICKSORT_LIMIT)])
    events = [(r, c, 1.0) for (r, c) in KEY_ALPHABET][: case.get("keys", 4)]
    v = {}
    paths = 0
    flushed = 0
    for L in range(1, depth + 1):
        for hist in itertools.product(range(len(events)), repeat=L):
            coo = _new_coo(n)
            ref = {}
            try:
                for ei in hist:
                    r, c, x = events[ei]
                    coo = coo_utils.coo_append(coo, (np.int32(r), np.int32(c), np.float32(x), np.int64(c + ARRAY_MUL * r)))
                    ref[(r, c)] = ref.get((r, c), 0.0) + x
                if int(coo.ind[0]) != L:
                    flushed += 1
                got = _epilogue_sums(coo)
            except Exception as e:
                got = None
                sig = "compiled-exception:%s" % type(e).__name__
                v.setdefault(sig, viol(sig, "history %s on a %d-entry accumulator raised %r" % (list(hist), n, e)))
                continue
            paths += 1
            if got != ref:
                sig = "compiled-differs-from-reference"
                v.setdefault(sig, viol(sig, "compiled accumulator (threshold 3, %d entries), history %s: sums %s, expected %s" % (n, [events[i][:2] for i in hist], got, ref)))
    return res(list(v.values()), nt=("compiled", n) if flushed else None, out="flushed" if flushed else "no-flush", st=1, tr=paths)


# ---------------------------------------------------------------------------------------------
# (a-deep) long histories: enough distinct keys to fill, merge and grow buffers of every size
# ---------------------------------------------------------------------------------------------
DEEP_TOKENS = 8            # keys id j -> (row j // 8, col j % 8), key = col + 9 * row
DEEP_MUL = DEEP_TOKENS + 1
DEEP_ORDER = [(j * 37 + 11) % 64 for j in range(64)]   # fixed non-monotone arrival order of new keys
DEEP_ORDER = [k for k in DEEP_ORDER if k != 0]


def _canon_key_sorted_region(coo):
    """Canonical form for the deep search: the not-yet-flushed region [|min[0]|, ind) is replaced by
    its sorted content.  Sound as long as a flush starts by sorting exactly that region and nothing
    else reads it (which the full-state search `a_accumulator_bfs` checks without this reduction for
    every history up to its depth): two states that differ only in the order of pending entries then
    have identical futures."""
    lo = int(abs(coo.min[0])) if coo.min.shape[0] else 0
    hi = int(coo.ind[0])
    c = _copy(coo)
    if 0 <= lo < hi <= c.key.shape[0]:
        perm = np.argsort(c.key[lo:hi], kind="stable")
        for arr in (c.row, c.col, c.val, c.key):
            arr[lo:hi] = arr[lo:hi][perm]
    return _state_key(c)


def run_accumulator_deep(case):
    from vectorizers import coo_utils
    n, L, depth, convention = case["n"], case["L"], case["depth"], case["convention"]
    prefix = case.get("prefix_new", 0)
    saved = coo_utils.COO_QUICKSORT_LIMIT
    coo_utils.COO_QUICKSORT_LIMIT = L if L else saved
    try:
        try:
            init = _new_coo(n)
        except Exception as e:
            return res([viol("alloc-exception:%s" % type(e).__name__,
                             "allocating an accumulator of %d entries raised %r" % (n, e))], out="alloc-exc")
        seen = {_canon_key_sorted_region(init)}
        # a state carries: coo, reference sums, number of new keys introduced so far, history
        frontier = [(init, {}, 0, ())]
        violations = {}
        states, transitions, flushes, grows, max_level = 1, 0, 0, 0, 0
        for d in range(prefix + depth):
            nxt = []
            for coo, ref, nnew, hist in frontier:
                if d < prefix:
                    evs = [("new", DEEP_ORDER[nnew])]
                else:
                    evs = [("zero", 0)]
                    if nnew < len(DEEP_ORDER):
                        evs.append(("new", DEEP_ORDER[nnew]))
                    if nnew >= 1:
                        evs.append(("last", DEEP_ORDER[nnew - 1]))
                    if nnew >= 2:
                        evs.append(("first", DEEP_ORDER[0]))
                for name, kid in evs:
                    r, c = kid // DEEP_TOKENS, kid % DEEP_TOKENS
                    work = _copy(coo)
                    ref2 = dict(ref)
                    ref2[(r, c)] = ref2.get((r, c), 0.0) + 1.0
                    h2 = hist + (name,)
                    transitions += 1
                    exc = got = None
                    before_ind = int(work.ind[0])
                    try:
                        ret = coo_utils.coo_append(work, (r, c, np.float32(1.0), c + DEEP_MUL * r))
                        work2 = ret if convention == "rebind" else work
                        if ret.row.shape[0] != work.row.shape[0]:
                            grows += 1
                        if int(ret.ind[0]) != before_ind + 1:
                            flushes += 1
                        max_level = max(max_level, int(ret.depth[0]))
                        got = _epilogue_sums(work2)
                    except Exception as e:
                        exc = e
                    if exc is not None or got != ref2:
                        sig = _classify(work, exc, got or {}, ref2, n, L)
                        if sig not in violations:
                            violations[sig] = viol(
                                sig, "append history %s on a %d-entry accumulator, threshold %s, %s convention: %s"
                                % ("".join(x[0] for x in h2), n, L or "65536", convention,
                                   ("raised %r" % exc) if exc is not None else "epilogue sums differ from the reference"),
                                observed=got, expected=ref2)
                        continue
                    k = _canon_key_sorted_region(work2)
                    if k in seen:
                        continue
                    seen.add(k)
                    states += 1
                    nxt.append((work2, ref2, nnew + (1 if name == "new" else 0), h2))
            frontier = nxt
        nt = ("deep-n%d-L%s-%s-k%d" % (n, L, convention, prefix)) if (flushes or grows) else None
        return res(list(violations.values()), nt=nt,
                   out="flush=%d grow=%d levels=%d" % (min(flushes, 1), min(grows, 1), max_level),
                   st=states, tr=transitions)
    finally:
        coo_utils.COO_QUICKSORT_LIMIT = saved


def reachable_sizes(limit=64):
    """Accumulator sizes the estimators really derive (_set_coo_sizes of the base class and of the
    multiset class) over a lattice of corpus sizes, radii, orientations, n_threads and
    coo_initial_memory >= '1k' -- the driver explores exactly these (up to `limit`)."""
    from vectorizers import TokenCooccurrenceVectorizer, MultiSetCooccurrenceVectorizer
    sizes = set()
    for mem in ("1k", "2k", "4k", "1 GiB"):
        for radius in (1, 2, 3, 5):
            for orient in ("after", "directional"):
                for nth in range(1, 17):
                    for total in (1, 2, 3, 5, 8, 13):
                        for cls, data in ((TokenCooccurrenceVectorizer, [[0] * total]),
                                          (MultiSetCooccurrenceVectorizer, [[[0] * total]])):
                            est = cls(window_radii=radius, window_orientations=orient, n_threads=nth,
                                      coo_initial_memory=mem)
                            est._mask_index = None
                            est._set_full_kernel_args()
                            est._set_coo_sizes(data)
                            sizes.update(int(x) for x in est._coo_sizes)
    return sorted(x for x in sizes if x <= limit)


def _deep_cases(tier):
    out = []
    sizes = reachable_sizes()
    if tier == "quick":
        keep = sizes[:4] + sizes[6:14:6]
    else:
        keep = sizes[:20]
    for conv in conventions():
        for L in (3, 0) if tier == "quick" else (2, 3, 5, 0):
            for n in keep:
                ks = [0] + [k for k in range(max(1, n - 4), n + 2)]
                for k in ks:
                    depth = (8 if k == 0 else 4) if tier == "quick" else (10 if k == 0 else 6)
                    out.append({"n": n, "L": L, "depth": depth, "convention": conv, "prefix_new": k})
    return out

# ---------------------------------------------------------------------------------------------
# (c) chunk boundaries
# ---------------------------------------------------------------------------------------------

def _chunk_cases(tier):
    maxdocs = 5 if tier == "quick" else 6
    for ndocs in range(1, maxdocs + 1):
        for lens in itertools.product(range(0, 4), repeat=ndocs):
            yield {"lens": list(lens)}


def run_chunks(case):
    from vectorizers import TokenCooccurrenceVectorizer, MultiSetCooccurrenceVectorizer
    lens = case["lens"]
    v = []
    nt = None
    for cls, data in ((TokenCooccurrenceVectorizer, [[0] * l for l in lens]),
                      (MultiSetCooccurrenceVectorizer, [[[0] * l] for l in lens])):
        est = cls.__new__(cls)
        for nth in range(1, 17):
            try:
                chunks = est._generate_chunk_boundaries(data, nth)
            except Exception as e:
                if sum(lens) == 0:
                    continue   # an all-empty corpus has no vocabulary: fit rejects it earlier
                v.append(viol("chunks-exception:%s" % type(e).__name__, "%s lens=%s n_threads=%d raised %r" % (cls.__name__, lens, nth, e)))
                continue
            flat = []
            ok = True
            for a, b in chunks:
                if not (0 <= a <= b <= len(data)):
                    ok = False
                flat.extend(range(a, b))
            if not ok or flat != list(range(len(data))):
                v.append(viol("chunks-not-partition", "%s lens=%s n_threads=%d chunks=%s" % (cls.__name__, lens, nth, chunks),
                              observed=chunks, expected="ordered partition of range(%d)" % len(data)))
            if len(chunks) > 1:
                nt = tuple(lens)
    return res(v, nt=nt, out="ok" if not v else "bad")


# ---------------------------------------------------------------------------------------------

# ---------------------------------------------------------------------------------------------
# (d) schedules of the dask fan-out under the controlled scheduler
# ---------------------------------------------------------------------------------------------
SCHED_POINTS = ["coo_append", "coo_sum_duplicates", "merge_all_sum_duplicates", "em_update_matrix"]


def run_schedules(case):
    import importlib
    import vectorizers as V
    from vmc import sched as S
    from checks.c03 import build_estimator, make_corpus
    kind, docs, nth, n_iter, bound = case["kind"], case["docs"], case["n_threads"], case["n_iter"], case["bound"]
    modname = {"token": "token_cooccurrence_vectorizer", "timed": "timed_token_cooccurrence_vectorizer",
               "multiset": "multi_token_cooccurence_vectorizer", "ngram": "ngram_token_cooccurence_vectorizer"}[kind]
    mod = importlib.import_module("vectorizers." + modname)
    cfg = dict(radii=[1], kernel="flat", orient="directional", normwin=True, n_iter=n_iter, epsilon=case.get("epsilon", 0))
    if kind == "ngram":
        cfg["ngram"] = 2
    corpus = make_corpus(kind, docs, [[float(j) for j in range(len(d))] for d in docs])
    seq = build_estimator(kind, dict(cfg, n_threads=1)).fit_transform(corpus).toarray()
    ref = [None]
    outcomes = {}
    v = {}
    stats = {"points": 0, "max_decisions": 0}

    def body():
        return build_estimator(kind, dict(cfg, n_threads=nth)).fit_transform(corpus).toarray()

    def on_exec(result, sched, prefix):
        key = result.tobytes()
        outcomes[key] = outcomes.get(key, 0) + 1
        stats["points"] = max(stats["points"], len(sched.trace))
        stats["max_decisions"] = max(stats["max_decisions"], len(sched.decisions))
        if sched.races:
            sig = "shared-mutable-state:%s" % kind
            if sig not in v:
                tid, shape, dtype, where = sched.races[0]
                v[sig] = viol(sig, "task %d found an array it can reach (shape %s, %s) modified by another live task %s - unsynchronised shared mutable state between the per-chunk tasks (a data race in compiled / GIL-releasing code); %d such observations in schedule %s" % (
                    tid, shape, dtype, where, len(sched.races), [c for (_, c, _) in sched.decisions]))
        if result.shape != seq.shape or not np.allclose(result, seq, rtol=1e-5, atol=1e-7):
            sig = "schedule-dependent-result:%s" % kind
            if sig not in v:
                v[sig] = viol(sig, "schedule %s (choices at the %d decisions) gives a matrix different from the sequential one" % (
                    [c for (_, c, _) in sched.decisions], len(sched.decisions)), observed=result.tolist(), expected=seq.tolist())
    try:
        with S.patched_points(ref, [mod], SCHED_POINTS):
            # replay guard: the default schedule run twice must produce identical traces
            r1, s1 = S.run_schedule(body, [], ref)
            r2, s2 = S.run_schedule(body, [c for (_, c, _) in s1.decisions], ref)
            if s1.trace != s2.trace or r1.tobytes() != r2.tobytes():
                return res([viol("harness:replay-diverged", "replaying the recorded default schedule gave a different trace")], out="diverged")
            n, capped = S.explore(body, ref, bound, on_exec, max_executions=case.get("cap"))
    except S.ScheduleError as e:
        return res([viol("harness:schedule-error", "scheduler error: %s" % e)], out="sched-error")
    if capped:
        v["harness:capped"] = viol("harness:capped", "exploration stopped at the cap of %s executions" % case.get("cap"))
    return res(list(v.values()), nt=repr(case), out="outcomes=%d points=%d" % (len(outcomes), stats["points"]), st=len(outcomes), tr=n)


def _sched_cases(tier):
    out = []
    for kind in ("token", "timed", "multiset", "ngram"):
        two = ["ab", "ba"] if kind != "multiset" else ["a|b", "b|a"]
        three = ["ab", "ba", "ab"] if kind != "multiset" else ["a|b", "b|a", "a|b"]
        if kind == "ngram":
            two, three = ["aba", "bab"], ["aba", "bab", "aba"]
        out.append({"kind": kind, "docs": two, "n_threads": 2, "n_iter": 0, "bound": 2 if tier == "quick" else 3})
        out.append({"kind": kind, "docs": two, "n_threads": 2, "n_iter": 1, "bound": 1 if tier == "quick" else 2})
        out.append({"kind": kind, "docs": three, "n_threads": 3, "n_iter": 0, "bound": 1 if tier == "quick" else 2})
        if tier != "quick":
            out.append({"kind": kind, "docs": two, "n_threads": 2, "n_iter": 2, "epsilon": 0.3, "bound": 1})
    return out


# ---------------------------------------------------------------------------------------------
# (b) estimator-level lattice: n_threads x coo_initial_memory must not change the result
# ---------------------------------------------------------------------------------------------

def run_lattice(case):
    from checks.c03 import build_estimator, make_corpus, est_cells, reference
    from vmc.ref import cooc as R
    kind, docs, n_iter = case["kind"], case["docs"], case["n_iter"]
    cfg = dict(radii=[case["radius"]], kernel="flat", orient="directional", normwin=(n_iter > 0), n_iter=n_iter)
    if kind == "ngram":
        cfg["ngram"] = 2
    corpus = make_corpus(kind, docs, [[float(j) for j in range(len(d))] for d in docs])
    try:
        base_est = build_estimator(kind, cfg)
        base = base_est.fit_transform(corpus)
    except Exception as e:
        return res(rej=True, out="rejected:%s" % type(e).__name__)
    v = []
    if n_iter == 0:
        exp = reference(kind, corpus, cfg)[0]
        bad = R.compare_cells(est_cells(base_est, base, kind), exp)
        if bad:
            v.append(viol("baseline-differs-from-definition:%s" % kind, "1 thread / default memory: %s" % (bad,)))
    ran = 0
    import contextlib
    import dask
    for nth in case["threads"]:
        for mem in case["memories"]:
            c2 = dict(cfg, n_threads=nth)
            if mem:
                c2["coo_initial_memory"] = mem
            # size of the dask worker pool: default (one per core), a single worker, fewer workers than chunks
            pool = case.get("pools", [None])[(nth + len(mem or "")) % len(case.get("pools", [None]))]
            try:
                with (dask.config.set(num_workers=pool) if pool else contextlib.nullcontext()):
                    est = build_estimator(kind, c2)
                    out = est.fit_transform(corpus)
                    t_out = est.transform(corpus * 3)
            except Exception as e:
                v.append(viol("exception:%s:%s" % (kind, type(e).__name__), "n_threads=%d coo_initial_memory=%s raised %r (docs %s)" % (nth, mem, e, docs)))
                continue
            ran += 1
            if out.shape != base.shape or not np.allclose(out.toarray(), base.toarray(), rtol=1e-5, atol=1e-7):
                v.append(viol("depends-on-threads-or-memory:%s" % kind, "n_threads=%d coo_initial_memory=%s changes fit_transform (docs %s)" % (nth, mem, docs),
                              observed=out.toarray().tolist(), expected=base.toarray().tolist()))
            if n_iter == 0 and (t_out.shape != base.shape or not np.allclose(t_out.toarray(), 3 * base.toarray(), rtol=1e-5, atol=1e-7)):
                v.append(viol("transform-of-larger-corpus:%s" % kind, "n_threads=%d coo_initial_memory=%s: transform of the corpus repeated 3 times is not 3x the training matrix" % (nth, mem),
                              observed=t_out.toarray().tolist(), expected=(3 * base.toarray()).tolist()))
    return res(v, nt=repr(case), out="ran=%d" % ran, tr=ran, st=1)


def _lattice_cases(tier, compiled=False):
    threads = [1, 2, 3, 5, 8, 16] if tier == "quick" else list(range(1, 17))
    mems = ["1k", "2k", "64k", None] if tier == "quick" else ["1k", "2k", "4k", "64k", "1M", None]
    corp = [["abcab", "bca", "cab", "a"], ["aaaa", "bbb", "ab", "ba", "", "abab"], ["ab"], ["abcabcabcabc", "cba"]]
    if compiled:
        threads, mems, corp = [2, 16], ["1k", None], corp[:2]
    for kind in ("token", "timed", "multiset", "ngram"):
        if compiled and kind == "ngram":
            continue
        for docs in corp:
            d = docs if kind != "multiset" else ["|".join(x) if x else "" for x in docs]
            for radius in (1, 3):
                for n_iter in (0, 1):
                    yield {"kind": kind, "docs": d, "radius": radius, "n_iter": n_iter, "threads": threads, "memories": mems, "pools": [None, 1, 2, 3]}


# ---------------------------------------------------------------------------------------------
# (e) volumes on both sides of the real thresholds (compiled modes), closed-form expectations
# ---------------------------------------------------------------------------------------------

def run_volume(case):
    import vectorizers as V
    from collections import Counter
    shape = case["shape"]
    if shape == "periodic":
        seq = ["a", "b"] * (case["events"] // 2 + 1)
        seq = seq[: case["events"] + 1]           # events adjacent pairs
        train, big = [seq], None
    elif shape == "distinct":
        n = case["tokens"]
        toks = ["t%03d" % i for i in range(n)]
        seq = []
        for i in range(n):
            for j in range(n):
                seq.append(toks[i])
                seq.append(toks[j])
        train, big = [seq], None
    else:   # fit small, transform large: transform reuses the buffer sizes derived at fit
        train = [["a", "b", "c"]]
        big = [(["a", "b", "c", "b"] * (case["events"] // 4 + 1))[: case["events"] + 1]]
    kw = dict(window_radii=1, window_orientations="after", normalize_windows=False, n_threads=case.get("n_threads", 1))
    if case.get("memory"):
        kw["coo_initial_memory"] = case["memory"]
    try:
        est = V.TokenCooccurrenceVectorizer(**kw) if case["kind"] == "token" else V.MultiSetCooccurrenceVectorizer(**kw)
        wrap = (lambda c: c) if case["kind"] == "token" else (lambda c: [[[t] for t in s] for s in c])
        out = est.fit_transform(wrap(train))
        data = train
        if big is not None:
            out = est.transform(wrap(big))
            data = big
    except Exception as e:
        return res([viol("exception:%s:%s" % (shape, type(e).__name__), "raised %r" % (e,))], out="exc")
    exp = Counter()
    for s in data:
        for a, b in zip(s, s[1:]):
            exp[(a, b)] += 1
    lab = est.token_label_dictionary_
    got = out.tocoo()
    inv = {i: t for t, i in lab.items()}
    g = {}
    for r, c, x in zip(got.row.tolist(), got.col.tolist(), got.data.tolist()):
        if x:
            g[(inv[r], inv[c])] = g.get((inv[r], inv[c]), 0) + x
    v = []
    if len(g) != len(exp) or any(abs(g.get(k, 0) - x) > 1e-3 * max(1, x) for k, x in exp.items()):
        diff = [(k, g.get(k, 0), x) for k, x in exp.items() if abs(g.get(k, 0) - x) > 1e-3 * max(1, x)][:4]
        lost = sum(exp.values()) - sum(g.values())
        v.append(viol("volume-events-%s:%s:%s" % ("lost" if lost > 0 else "wrong", shape, case["kind"]),
                      "%d events, %d distinct cells expected; got %d cells, total %s vs %s; first differences (cell, got, expected): %s" % (
                          sum(exp.values()), len(exp), len(g), sum(g.values()), sum(exp.values()), diff)))
    return res(v, nt=repr(case), out="cells=%d" % len(exp), tr=sum(exp.values()), st=1)


def _volume_cases(tier):
    T = 65536
    events = [T - 1, T, T + 1, 2 * T + 1] + ([5 * T + 3] if tier != "quick" else [])
    for kind in ("token", "multiset"):
        for ev in events:
            for mem in (None, "1k", "2M"):
                yield {"kind": kind, "shape": "periodic", "events": ev, "memory": mem}
        for n in ((257,) if tier == "quick" else (257, 300)):
            for mem in (None, "1k", "1M"):
                for nth in (1, 4):
                    yield {"kind": kind, "shape": "distinct", "tokens": n, "memory": mem, "n_threads": nth}
        for ev in (3000, T + 5):
            for mem in (None, "1k"):
                yield {"kind": kind, "shape": "fit-small-transform-large", "events": ev, "memory": mem}


def subchecks(tier, seed):
    subs = []
    acc = _acc_cases(tier)
    subs.append(Sub(
        "a_accumulator_bfs", "I", lambda: iter(acc), run_accumulator_bfs,
        describe="BFS over append sequences (4 keys incl. key 0; depth %d) x every buffer size <= %d that _set_coo_sizes can derive x thresholds {2,3,4,5,real} x {rebind,dropped-return} conventions; invariant: epilogue sums == reference on every reached state"
                 % (acc[0]["depth"], max(c["n"] for c in acc)),
        total=len(acc), kind="states", shards=len(acc) // 4 + 1, setup=_check_alloc_expression,
        nontrivial_rule="configuration in which at least one flush or growth happened"))
    hc = [{"n": n, "depth": 6 if tier == "quick" else 8} for n in reachable_sizes()[: (3 if tier == "quick" else 8)]]
    # fewer keys, longer histories: several flushes in a row, so that merges cascade over more than one level
    hc += [{"n": n, "depth": 8 if tier == "quick" else 10, "keys": 3} for n in reachable_sizes()[:2]]
    hc += [{"n": n, "depth": 13 if tier == "quick" else 16, "keys": 2} for n in reachable_sizes()[:2]]
    subs.append(Sub(
        "a_accumulator_compiled", "H", lambda: iter(hc), run_accumulator_compiled, total=len(hc), kind="compiled-traces", shards=len(hc),
        describe="every append history of length <= %d over the 4-key alphabet replayed on the compiled accumulator with the hook threshold 3 (VECTORIZERS_VERIF=1), buffer sizes %s; transitions = histories validated" % (hc[0]["depth"], [x["n"] for x in hc]),
        nontrivial_rule="a flush happened in at least one history"))
    dp = _deep_cases(tier)
    subs.append(Sub(
        "a_accumulator_deep", "I", lambda: iter(dp), run_accumulator_deep,
        describe="BFS over long append histories with up to 63 distinct keys: forced prefix of k new keys (k = 0 and n-4..n+1, i.e. both sides of the fill/growth point) followed by every sequence of length <= %d over {key 0, next new key (fixed non-monotone order), repeat newest, repeat oldest}; pending region canonicalised by sorting; buffer sizes (those _set_coo_sizes can derive) %s"
                 % (dp[1]["depth"], sorted({c["n"] for c in dp})),
        total=len(dp), kind="states", shards=len(dp), nontrivial_rule="configuration in which a flush or growth happened"))
    sc = _sched_cases(tier)
    subs.append(Sub(
        "d_schedules", "I", lambda: iter(sc), run_schedules, total=len(sc), kind="schedules", shards=len(sc), timeout_s=1500,
        describe="real fit_transform with n_threads 2-3 (and EM iterations) for the four vectorizers; dask tasks run on the controlled executor; scheduling points = calls of coo_append / coo_sum_duplicates / merge_all_sum_duplicates / em_update_matrix; every schedule with <= %d preemptions (2 chunks), <= %d (3 chunks / EM); oracle = sequential result; states = distinct outcomes, transitions = executions"
                 % (sc[0]["bound"], sc[2]["bound"]),
        nontrivial_rule="every case (each explores all schedules within its preemption bound)"))
    lt = list(_lattice_cases(tier))
    subs.append(Sub(
        "b_threads_memory_lattice", "I", lambda: iter(lt), run_lattice, total=len(lt), kind="configurations",
        describe="four vectorizers x corpora x radius{1,3} x n_iter{0,1} x n_threads %s x coo_initial_memory %s x dask worker-pool size {default, 1, 2, 3} (rotated over the lattice): fit_transform equals the (1 thread, default memory) result and the definition; transform of the corpus repeated 3x equals 3x" % (lt[0]["threads"], lt[0]["memories"]),
        nontrivial_rule="every case"))
    ltn = list(_lattice_cases(tier, compiled=True))
    subs.append(Sub(
        "b_threads_memory_compiled", "N", lambda: iter(ltn), run_lattice, total=len(ltn), kind="configurations", timeout_s=1200,
        describe="compiled mode (crash isolated): token/timed/multiset x n_threads {2,16} x coo_initial_memory {'1k', default}", nontrivial_rule="every case",
        crash_sig=lambda case: "abnormal-termination:%s" % case["kind"]))
    vol = list(_volume_cases(tier))
    for mode in ("N", "B"):
        vv = vol if mode == "N" else [c for c in vol if c["kind"] == "token" and c.get("memory") in (None, "1k") and c.get("n_threads", 1) == 1][::2]
        subs.append(Sub(
            "e_real_threshold_%s" % mode, mode, (lambda x: (lambda: iter(x)))(vv), run_volume, total=len(vv), kind="volumes", timeout_s=1200,
            describe="real sort/merge threshold 65536: periodic corpora with 65535/65536/65537/131073(/327683) events on <= 2 cells, corpora with > 65536 distinct cells (257^2 ordered pairs), and transform of a corpus far larger than the fitted one; buffers '1k'..default; expected counts by direct pair counting",
            nontrivial_rule="every case", crash_sig=lambda case: "abnormal-termination:%s:%s" % (case["shape"], case["kind"])))
    ch = list(_chunk_cases(tier))
    subs.append(Sub(
        "c_chunk_boundaries", "I", lambda: iter(ch), run_chunks,
        describe="all document-length vectors (<=%d docs, lengths 0..3) x n_threads 1..16, base and multiset chunkers" % (5 if tier == "quick" else 6),
        total=len(ch), nontrivial_rule="length vector that is split into more than one chunk"))
    return subs
