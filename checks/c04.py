"""C04 - co-occurrence results do not depend on threads, buffer sizes or data volume.

Layers (DESIGN 3/C04):
  a  accumulator as a transition system: BFS over append sequences on the real coo_* functions
     (interpreted mode, threshold patched per configuration), invariant on every reached state.
  a2 the same state graph driven end-to-end through the real numba_build_skip_grams (chain corpora).
  c  chunk boundaries form an ordered partition, for all small length vectors x n_threads.
  b  estimator-level parameter lattice (n_threads x coo_initial_memory) against the reference.
  d  schedules of the dask fan-out under a controlled scheduler (see c04_sched sub-checks).
  e  real threshold volumes in compiled modes.
"""
from __future__ import annotations

import itertools
import math

import numpy as np

from vmc.core import Sub, res, viol

PROPERTY = "C04"
LEVEL_TEXT = "explicit-state BFS of the real accumulator functions (every buffer byte is state) with the invariant 'epilogue sums == reference' on every reached state, for every buffer size the estimators can derive and thresholds {2..5, real}; chunking partition check; estimator-level lattice"
LEVEL_NOTE = "interpreted mode runs the kernels' own source; sizes/conventions are read from the code at run time; schedules at call granularity only"
TECHNIQUE = 'explicit-state BFS over append histories of the real accumulator + exhaustive configuration lattice + controlled-scheduler interleaving exploration'
LEVEL = "model_checking"
RULE = ("explicit-state BFS over append histories of the real accumulator (state = every buffer byte), "
        "plus complete products of corpora x n_threads x coo_initial_memory; a state/case is non-trivial "
        "when a flush, merge or growth actually happened")
MC_NOTE = ("states = distinct full accumulator states reached (BFS, per configuration); transitions = real "
           "coo_append calls; traces_validated = cases replayed through compiled (N/B mode) code")
ASSUMPTIONS = [
    "interpreted mode (NUMBA_DISABLE_JIT=1) executes the same kernel source as compiled mode; bound by N/B-mode replays",
    "scheduling points are calls of coo_append/coo_sum_duplicates/em_update_matrix (call granularity)",
]

KEY_ALPHABET = [  # (row, col) with array_mul = 5 (n_windows=1, n_unique_tokens=4): key = col + 5*row
    (0, 0),  # key 0: indistinguishable from zero-filled buffer words
    (0, 1),
    (0, 3),
    (1, 0),
]
ARRAY_MUL = 5


def _new_coo(n):
    from vectorizers.coo_utils import CooArray
    # the allocation expression used verbatim by all four kernels (asserted against the source in setup)
    return CooArray(
        np.zeros(n, dtype=np.int32),
        np.zeros(n, dtype=np.int32),
        np.zeros(n, dtype=np.float32),
        np.zeros(n, dtype=np.int64),
        np.zeros(1, dtype=np.int64),
        np.zeros(2 * np.int64(np.ceil(np.log2(n))), dtype=np.int64),
        np.zeros(1, dtype=np.int64),
    )


def _copy(coo):
    from vectorizers.coo_utils import CooArray
    return CooArray(*[a.copy() for a in coo])


def _state_key(coo):
    return b"|".join(a.tobytes() for a in coo) + b"#%d#%d" % (coo.row.shape[0], coo.min.shape[0])


def _check_alloc_expression():
    """The driver repeats the kernels' allocation expression; make sure the source still has it."""
    import inspect
    import re
    from vectorizers import token_cooccurrence_vectorizer as t, timed_token_cooccurrence_vectorizer as tt
    from vectorizers import multi_token_cooccurence_vectorizer as m, ngram_token_cooccurence_vectorizer as ng
    pat = re.compile(r"np\.zeros\(2 \* np\.int64\(np\.ceil\(np\.log2\(array_lengths\[i\]\)\)\), dtype=np\.int64\)")
    for mod in (t, tt, m, ng):
        if not pat.search(inspect.getsource(mod)):
            raise RuntimeError("accumulator allocation expression changed in %s; update checks/c04.py" % mod.__name__)


def _epilogue_sums(coo):
    """What the kernels do after the last append, then what _build_coo + sum_duplicates make of it."""
    from vectorizers import coo_utils
    c = _copy(coo)
    coo_utils.coo_sum_duplicates(c)
    coo_utils.merge_all_sum_duplicates(c)
    n = int(c.ind[0])
    if n < 0 or n > c.row.shape[0]:
        raise IndexError("ind=%d outside buffer of %d" % (n, c.row.shape[0]))
    out = {}
    for r, cc, v in zip(c.row[:n].tolist(), c.col[:n].tolist(), c.val[:n].tolist()):
        out[(r, cc)] = out.get((r, cc), 0.0) + v
    return {k: v for k, v in out.items() if v != 0.0}


def _classify(coo_before, exc, got, ref, n, L):
    feats = []
    if n < 20:
        feats.append("buffer<20")
    if exc is not None:
        return "exception:%s:%s" % (type(exc).__name__, ",".join(feats) or "-")
    lost = sorted(k for k in ref if k not in got)
    extra = sorted(k for k in got if k not in ref)
    wrong = sorted(k for k in ref if k in got and got[k] != ref[k])
    kind = "lost" if lost else ("spurious" if extra else "wrong-sum")
    if lost and lost == [(0, 0)] and not extra and not wrong:
        feats.append("only-key0")
    return "%s:%s" % (kind, ",".join(feats) or "-")


def run_accumulator_bfs(case):
    """One configuration: BFS over all append sequences up to `depth` over the key alphabet."""
    from vectorizers import coo_utils
    n, L, depth, vals, convention = case["n"], case["L"], case["depth"], case["vals"], case["convention"]
    saved = coo_utils.COO_QUICKSORT_LIMIT
    coo_utils.COO_QUICKSORT_LIMIT = L if L else saved
    try:
        try:
            init = _new_coo(n)
        except Exception as e:
            return res([viol("alloc-exception:%s" % type(e).__name__,
                             "allocating an accumulator of %d entries raised %r" % (n, e))], out="alloc-exc")
        events = [(r, c, v) for (r, c) in KEY_ALPHABET for v in vals]
        seen = {_state_key(init)}
        frontier = [(init, {}, ())]
        violations = {}
        states = 1
        transitions = 0
        flushes = 0
        grows = 0
        for d in range(depth):
            nxt = []
            for coo, ref, hist in frontier:
                for ei, (r, c, v) in enumerate(events):
                    work = _copy(coo)
                    ref2 = dict(ref)
                    ref2[(r, c)] = ref2.get((r, c), 0.0) + v
                    h2 = hist + (ei,)
                    transitions += 1
                    exc = None
                    got = None
                    before_ind = int(work.ind[0])
                    try:
                        ret = coo_utils.coo_append(work, (r, c, np.float32(v), c + ARRAY_MUL * r))
                        if convention == "rebind":
                            work2 = ret
                        else:           # the multiset kernel drops the return value
                            work2 = work
                        if ret.row.shape[0] != work.row.shape[0]:
                            grows += 1
                        if int(ret.ind[0]) != before_ind + 1:
                            flushes += 1
                        got = _epilogue_sums(work2)
                    except Exception as e:   # IndexError etc. under Python semantics
                        exc = e
                    if exc is not None or got != ref2:
                        sig = _classify(work, exc, got or {}, ref2, n, L)
                        if sig not in violations:
                            violations[sig] = viol(
                                sig,
                                "append history %s (events index %s) on a %d-entry accumulator, threshold %s, %s convention: %s"
                                % ([events[i] for i in h2], list(h2), n, L or "65536", convention,
                                   ("raised %r" % exc) if exc is not None else "epilogue sums differ from the reference"),
                                observed=got, expected=ref2)
                        continue   # do not expand a violating state
                    k = _state_key(work2)
                    if k in seen:
                        continue
                    seen.add(k)
                    states += 1
                    nxt.append((work2, ref2, h2))
            frontier = nxt
        nt = ("n%d-L%s-%s" % (n, L, convention)) if (flushes or grows) else None
        return res(list(violations.values()), nt=nt, out="flush=%d grow=%d" % (min(flushes, 1), min(grows, 1)),
                   st=states, tr=transitions)
    finally:
        coo_utils.COO_QUICKSORT_LIMIT = saved


def conventions():
    """Calling conventions the four kernels really use for coo_append, read from their source:
    'rebind' (coo_data[i] = coo_append(...)) and/or 'dropped' (return value ignored)."""
    import inspect
    import re
    from vectorizers import token_cooccurrence_vectorizer as t, timed_token_cooccurrence_vectorizer as tt
    from vectorizers import multi_token_cooccurence_vectorizer as m, ngram_token_cooccurence_vectorizer as ng
    out = set()
    for mod in (t, tt, m, ng):
        src = inspect.getsource(mod)
        calls = re.findall(r"^(.*)coo_append\(", src, flags=re.M)
        for pre in calls:
            if pre.strip().startswith(("from", "import", "#")) or pre.strip() == "":
                if pre.strip() == "" :
                    out.add("dropped")
                continue
            out.add("rebind" if re.search(r"=\s*$", pre) else "dropped")
    return sorted(out, reverse=True)


def _acc_cases(tier):
    depth_small = 7 if tier == "quick" else 9
    sizes = reachable_sizes()
    ns = sizes[:12] if tier == "quick" else sizes[:32]
    Ls = [2, 3, 4, 5, 0]          # 0 = leave the real threshold (65536 > n): only the full-buffer path
    out = []
    for conv in conventions():
        for L in Ls:
            for n in ns:
                # depth must pass the point where the buffer fills at least twice
                depth = depth_small
                out.append({"n": n, "L": L, "depth": depth, "vals": [1.0], "convention": conv})
    if tier == "thorough":
        for L in (2, 3, 0):
            for n in (2, 5, 12, 20, 21, 24):
                out.append({"n": n, "L": L, "depth": 6, "vals": [1.0, 0.5], "convention": "rebind"})
    return out



# ---------------------------------------------------------------------------------------------
# (a-deep) long histories: enough distinct keys to fill, merge and grow buffers of every size
# ---------------------------------------------------------------------------------------------
DEEP_TOKENS = 8            # keys id j -> (row j // 8, col j % 8), key = col + 9 * row
DEEP_MUL = DEEP_TOKENS + 1
DEEP_ORDER = [(j * 37 + 11) % 64 for j in range(64)]   # fixed non-monotone arrival order of new keys
DEEP_ORDER = [k for k in DEEP_ORDER if k != 0]


def _canon_key_sorted_region(coo):
    """Canonical form for the deep search: the not-yet-flushed region [|min[0]|, ind) is replaced by
    its sorted content.  Sound as long as a flush starts by sorting exactly that region and nothing
    else reads it (which the full-state search `a_accumulator_bfs` checks without this reduction for
    every history up to its depth): two states that differ only in the order of pending entries then
    have identical futures."""
    lo = int(abs(coo.min[0])) if coo.min.shape[0] else 0
    hi = int(coo.ind[0])
    c = _copy(coo)
    if 0 <= lo < hi <= c.key.shape[0]:
        perm = np.argsort(c.key[lo:hi], kind="stable")
        for arr in (c.row, c.col, c.val, c.key):
            arr[lo:hi] = arr[lo:hi][perm]
    return _state_key(c)


def run_accumulator_deep(case):
    from vectorizers import coo_utils
    n, L, depth, convention = case["n"], case["L"], case["depth"], case["convention"]
    prefix = case.get("prefix_new", 0)
    saved = coo_utils.COO_QUICKSORT_LIMIT
    coo_utils.COO_QUICKSORT_LIMIT = L if L else saved
    try:
        try:
            init = _new_coo(n)
        except Exception as e:
            return res([viol("alloc-exception:%s" % type(e).__name__,
                             "allocating an accumulator of %d entries raised %r" % (n, e))], out="alloc-exc")
        seen = {_canon_key_sorted_region(init)}
        # a state carries: coo, reference sums, number of new keys introduced so far, history
        frontier = [(init, {}, 0, ())]
        violations = {}
        states, transitions, flushes, grows, max_level = 1, 0, 0, 0, 0
        for d in range(prefix + depth):
            nxt = []
            for coo, ref, nnew, hist in frontier:
                if d < prefix:
                    evs = [("new", DEEP_ORDER[nnew])]
                else:
                    evs = [("zero", 0)]
                    if nnew < len(DEEP_ORDER):
                        evs.append(("new", DEEP_ORDER[nnew]))
                    if nnew >= 1:
                        evs.append(("last", DEEP_ORDER[nnew - 1]))
                    if nnew >= 2:
                        evs.append(("first", DEEP_ORDER[0]))
                for name, kid in evs:
                    r, c = kid // DEEP_TOKENS, kid % DEEP_TOKENS
                    work = _copy(coo)
                    ref2 = dict(ref)
                    ref2[(r, c)] = ref2.get((r, c), 0.0) + 1.0
                    h2 = hist + (name,)
                    transitions += 1
                    exc = got = None
                    before_ind = int(work.ind[0])
                    try:
                        ret = coo_utils.coo_append(work, (r, c, np.float32(1.0), c + DEEP_MUL * r))
                        work2 = ret if convention == "rebind" else work
                        if ret.row.shape[0] != work.row.shape[0]:
                            grows += 1
                        if int(ret.ind[0]) != before_ind + 1:
                            flushes += 1
                        max_level = max(max_level, int(ret.depth[0]))
                        got = _epilogue_sums(work2)
                    except Exception as e:
                        exc = e
                    if exc is not None or got != ref2:
                        sig = _classify(work, exc, got or {}, ref2, n, L)
                        if sig not in violations:
                            violations[sig] = viol(
                                sig, "append history %s on a %d-entry accumulator, threshold %s, %s convention: %s"
                                % ("".join(x[0] for x in h2), n, L or "65536", convention,
                                   ("raised %r" % exc) if exc is not None else "epilogue sums differ from the reference"),
                                observed=got, expected=ref2)
                        continue
                    k = _canon_key_sorted_region(work2)
                    if k in seen:
                        continue
                    seen.add(k)
                    states += 1
                    nxt.append((work2, ref2, nnew + (1 if name == "new" else 0), h2))
            frontier = nxt
        nt = ("deep-n%d-L%s-%s" % (n, L, convention)) if (flushes or grows) else None
        return res(list(violations.values()), nt=nt,
                   out="flush=%d grow=%d levels=%d" % (min(flushes, 1), min(grows, 1), max_level),
                   st=states, tr=transitions)
    finally:
        coo_utils.COO_QUICKSORT_LIMIT = saved


def reachable_sizes(limit=64):
    """Accumulator sizes the estimators really derive (_set_coo_sizes of the base class and of the
    multiset class) over a lattice of corpus sizes, radii, orientations, n_threads and
    coo_initial_memory >= '1k' -- the driver explores exactly these (up to `limit`)."""
    from vectorizers import TokenCooccurrenceVectorizer, MultiSetCooccurrenceVectorizer
    sizes = set()
    for mem in ("1k", "2k", "4k", "1 GiB"):
        for radius in (1, 2, 3, 5):
            for orient in ("after", "directional"):
                for nth in range(1, 17):
                    for total in (1, 2, 3, 5, 8, 13):
                        for cls, data in ((TokenCooccurrenceVectorizer, [[0] * total]),
                                          (MultiSetCooccurrenceVectorizer, [[[0] * total]])):
                            est = cls(window_radii=radius, window_orientations=orient, n_threads=nth,
                                      coo_initial_memory=mem)
                            est._mask_index = None
                            est._set_full_kernel_args()
                            est._set_coo_sizes(data)
                            sizes.update(int(x) for x in est._coo_sizes)
    return sorted(x for x in sizes if x <= limit)


def _deep_cases(tier):
    out = []
    sizes = reachable_sizes()
    if tier == "quick":
        keep = sizes[:4] + sizes[6:14:6]
    else:
        keep = sizes[:20]
    for conv in conventions():
        for L in (3, 0) if tier == "quick" else (2, 3, 5, 0):
            for n in keep:
                ks = [0] + [k for k in range(max(1, n - 4), n + 2)]
                for k in ks:
                    depth = (8 if k == 0 else 4) if tier == "quick" else (10 if k == 0 else 6)
                    out.append({"n": n, "L": L, "depth": depth, "convention": conv, "prefix_new": k})
    return out

# ---------------------------------------------------------------------------------------------
# (c) chunk boundaries
# ---------------------------------------------------------------------------------------------

def _chunk_cases(tier):
    maxdocs = 5 if tier == "quick" else 6
    for ndocs in range(1, maxdocs + 1):
        for lens in itertools.product(range(0, 4), repeat=ndocs):
            yield {"lens": list(lens)}


def run_chunks(case):
    from vectorizers import TokenCooccurrenceVectorizer, MultiSetCooccurrenceVectorizer
    lens = case["lens"]
    v = []
    nt = None
    for cls, data in ((TokenCooccurrenceVectorizer, [[0] * l for l in lens]),
                      (MultiSetCooccurrenceVectorizer, [[[0] * l] for l in lens])):
        est = cls.__new__(cls)
        for nth in range(1, 17):
            try:
                chunks = est._generate_chunk_boundaries(data, nth)
            except Exception as e:
                if sum(lens) == 0:
                    continue   # an all-empty corpus has no vocabulary: fit rejects it earlier
                v.append(viol("chunks-exception:%s" % type(e).__name__, "%s lens=%s n_threads=%d raised %r" % (cls.__name__, lens, nth, e)))
                continue
            flat = []
            ok = True
            for a, b in chunks:
                if not (0 <= a <= b <= len(data)):
                    ok = False
                flat.extend(range(a, b))
            if not ok or flat != list(range(len(data))):
                v.append(viol("chunks-not-partition", "%s lens=%s n_threads=%d chunks=%s" % (cls.__name__, lens, nth, chunks),
                              observed=chunks, expected="ordered partition of range(%d)" % len(data)))
            if len(chunks) > 1:
                nt = tuple(lens)
    return res(v, nt=nt, out="ok" if not v else "bad")


# ---------------------------------------------------------------------------------------------

def subchecks(tier, seed):
    subs = []
    acc = _acc_cases(tier)
    subs.append(Sub(
        "a_accumulator_bfs", "I", lambda: iter(acc), run_accumulator_bfs,
        describe="BFS over append sequences (4 keys incl. key 0; depth %d) x every buffer size <= %d that _set_coo_sizes can derive x thresholds {2,3,4,5,real} x {rebind,dropped-return} conventions; invariant: epilogue sums == reference on every reached state"
                 % (acc[0]["depth"], max(c["n"] for c in acc)),
        total=len(acc), kind="states", shards=len(acc) // 4 + 1, setup=_check_alloc_expression,
        nontrivial_rule="configuration in which at least one flush or growth happened"))
    dp = _deep_cases(tier)
    subs.append(Sub(
        "a_accumulator_deep", "I", lambda: iter(dp), run_accumulator_deep,
        describe="BFS over long append histories with up to 63 distinct keys: forced prefix of k new keys (k = 0 and n-4..n+1, i.e. both sides of the fill/growth point) followed by every sequence of length <= %d over {key 0, next new key (fixed non-monotone order), repeat newest, repeat oldest}; pending region canonicalised by sorting; buffer sizes (those _set_coo_sizes can derive) %s"
                 % (dp[1]["depth"], sorted({c["n"] for c in dp})),
        total=len(dp), kind="states", shards=len(dp), nontrivial_rule="configuration in which a flush or growth happened"))
    ch = list(_chunk_cases(tier))
    subs.append(Sub(
        "c_chunk_boundaries", "I", lambda: iter(ch), run_chunks,
        describe="all document-length vectors (<=%d docs, lengths 0..3) x n_threads 1..16, base and multiset chunkers" % (5 if tier == "quick" else 6),
        total=len(ch), nontrivial_rule="length vector that is split into more than one chunk"))
    return subs
