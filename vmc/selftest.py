"""setup_cmd: nothing to compile.  Verifies the explorer on a toy transition system and that the
package under test is importable from /repo's working tree."""
import os
import subprocess
import sys


def toy_bfs():
    # counter mod 5 with +1 / +2: 5 states, 10 transitions
    seen, frontier, tr = {0}, [0], 0
    while frontier:
        nxt = []
        for s in frontier:
            for d in (1, 2):
                tr += 1
                t = (s + d) % 5
                if t not in seen:
                    seen.add(t)
                    nxt.append(t)
        frontier = nxt
    assert len(seen) == 5 and tr == 10, (seen, tr)


def main():
    toy_bfs()
    env = dict(os.environ, NUMBA_DISABLE_JIT="1")
    out = subprocess.run(["/venv/bin/python", "-W", "ignore", "-c",
                          "import sys; sys.path.insert(0, '/repo'); import vectorizers, os; print(os.path.dirname(vectorizers.__file__))"],
                         env=env, capture_output=True, text=True, timeout=600)
    if out.returncode != 0 or "/repo/vectorizers" not in out.stdout:
        print(out.stdout, out.stderr)
        sys.exit(1)
    print("selftest ok: explorer toy BFS 5 states / 10 transitions; vectorizers imported from", out.stdout.strip())


if __name__ == "__main__":
    main()
