"""Controlled cooperative scheduler for the dask thread fan-out (interpreted mode).

* ControlledExecutor is handed to dask (dask.config.set(scheduler="threads", pool=executor)): every
  task dask submits becomes a real thread that only runs while it holds the baton.
* Scheduling points are calls of selected module-level functions (coo_append, coo_sum_duplicates,
  em_update_matrix, ...): the names are rebound, in the modules that use them, to wrappers that call
  Scheduler.point() first.  Exactly one task thread runs at any time; at a point (and when a task
  ends) the running thread consults the schedule and hands the baton over.
* The submitting (dask) thread signals when it is about to block waiting for results (dask.local.queue_get is
  wrapped): at that moment every ready task has been submitted, and if nobody holds the baton the next
  holder is chosen.  No timing is involved in any decision.
* A schedule is a list of choices, one per decision; choice c picks the c-th thread of the enabled
  list in canonical order (the running thread first if it is still enabled, then ascending task id).
  Decisions beyond the recorded prefix take choice 0 (keep running / lowest id).  Replaying a prefix
  whose choice is out of range is a hard error.
* explore() enumerates all schedules with at most `bound` preemptions (iterative context bounding).

dask names impure delayed tasks with uuid4 and its ready order depends on the key names, so uuid.uuid4
is pinned to a counter for the duration of a controlled run; otherwise recorded schedules do not replay.
"""
from __future__ import annotations

import threading
import uuid
from concurrent.futures import Executor, Future


class ScheduleError(RuntimeError):
    pass


class Scheduler:
    def __init__(self, prefix):
        self.prefix = list(prefix)
        self.lock = threading.Lock()
        self.sems = {}
        self.enabled = []        # task ids submitted and not finished
        self.running = None
        self.decisions = []      # (enabled list in canonical order, choice, running_still_enabled)
        self.next_id = 0
        self.errors = []
        self.trace = []          # (task id, point label)

    def _choose(self, running_enabled):
        order = sorted(self.enabled)
        if running_enabled and self.running in order:
            order.remove(self.running)
            order.insert(0, self.running)
        i = len(self.decisions)
        if i < len(self.prefix):
            c = self.prefix[i]
            if c >= len(order):
                raise ScheduleError("choice %d out of range at decision %d (enabled %s)" % (c, i, order))
        else:
            c = 0
        self.decisions.append((tuple(order), c, bool(running_enabled and self.running in self.enabled)))
        return order[c]

    # -- called by the submitting (dask) thread
    def submit(self):
        with self.lock:
            tid = self.next_id
            self.next_id += 1
            self.sems[tid] = threading.Semaphore(0)
            return tid

    def enable(self, tid):
        with self.lock:
            self.enabled.append(tid)

    def on_idle(self):
        """The submitting thread is about to block waiting for a result: every ready task has been
        submitted.  If no task holds the baton, pick the next one."""
        start = None
        with self.lock:
            if self.running is None and self.enabled:
                try:
                    start = self._choose(False)
                except ScheduleError as e:
                    self.errors.append(e)
                    start = sorted(self.enabled)[0]
                self.running = start
        if start is not None:
            self.sems[start].release()

    # -- called by task threads
    def wait_turn(self, tid):
        if not self.sems[tid].acquire(timeout=60):
            raise ScheduleError("task %d was never scheduled (deadlock)" % tid)

    def point(self, label):
        tid = getattr(_local, "tid", None)
        if tid is None:
            return                      # not a controlled thread (e.g. the sequential reference run)
        with self.lock:
            self.trace.append((tid, label))
            try:
                nxt = self._choose(True)
            except ScheduleError as e:
                self.errors.append(e)
                nxt = tid
            self.running = nxt
        if nxt != tid:
            self.sems[nxt].release()
            if not self.sems[tid].acquire(timeout=60):
                raise ScheduleError("task %d never got the baton back" % tid)

    def finish(self, tid):
        """The task is done: it gives the baton up; the next holder is chosen when the submitting thread
        goes idle again (after it has submitted whatever became ready)."""
        with self.lock:
            self.enabled.remove(tid)
            self.running = None


_local = threading.local()


class ControlledExecutor(Executor):
    def __init__(self, sched, max_workers=8):
        self.sched = sched
        self._max_workers = max_workers
        self.threads = []

    def submit(self, fn, *args, **kwargs):
        fut = Future()
        sched = self.sched
        tid = sched.submit()

        def body():
            _local.tid = tid
            sched.wait_turn(tid)
            result, exc = None, None
            try:
                result = fn(*args, **kwargs)
            except BaseException as e:      # noqa
                exc = e
            _local.tid = None
            sched.finish(tid)               # before the future completes: the submitter decides afterwards
            if exc is not None:
                fut.set_exception(exc)
            else:
                fut.set_result(result)

        t = threading.Thread(target=body, daemon=True)
        t.start()
        self.threads.append(t)
        sched.enable(tid)
        return fut

    def shutdown(self, wait=True, **kw):
        for t in self.threads:
            t.join(timeout=10)


class patched_points:
    """Rebind `names` in `modules` to wrappers that hit a scheduling point before calling through."""

    def __init__(self, sched_ref, modules, names):
        self.sched_ref, self.modules, self.names = sched_ref, modules, names
        self.saved = []

    def __enter__(self):
        for m in self.modules:
            for n in self.names:
                if hasattr(m, n):
                    real = getattr(m, n)
                    self.saved.append((m, n, real))
                    setattr(m, n, self._wrap(real, n))
        return self

    def _wrap(self, real, label):
        ref = self.sched_ref

        def wrapper(*a, **kw):
            s = ref[0]
            if s is not None:
                s.point(label)
            return real(*a, **kw)
        wrapper.__name__ = getattr(real, "__name__", label)
        return wrapper

    def __exit__(self, *exc):
        for m, n, real in self.saved:
            setattr(m, n, real)


class pinned_uuid:
    def __enter__(self):
        self.saved = uuid.uuid4
        counter = [0]

        def fake():
            counter[0] += 1
            return uuid.UUID(int=counter[0])
        uuid.uuid4 = fake
        return self

    def __exit__(self, *exc):
        uuid.uuid4 = self.saved


def run_schedule(body, prefix, sched_ref):
    """Run body() (whose dask computations are handed to a ControlledExecutor) under the schedule `prefix`."""
    import dask
    import dask.local
    sched = Scheduler(prefix)
    sched_ref[0] = sched
    ex = ControlledExecutor(sched)
    orig_queue_get = dask.local.queue_get

    def queue_get(q):
        sched.on_idle()
        return orig_queue_get(q)
    dask.local.queue_get = queue_get
    try:
        with pinned_uuid():
            with dask.config.set(scheduler="threads", pool=ex):
                result = body()
    finally:
        dask.local.queue_get = orig_queue_get
        sched_ref[0] = None
        ex.shutdown()
    if sched.errors:
        raise sched.errors[0]
    return result, sched


def explore(body, sched_ref, bound, on_execution, max_executions=None):
    """Enumerate every schedule with at most `bound` preemptions.  on_execution(result, sched, prefix) is
    called for every execution.  Returns (executions, capped)."""
    count = 0
    capped = False
    stack = [[]]
    while stack:
        prefix = stack.pop()
        result, sched = run_schedule(body, prefix, sched_ref)
        count += 1
        on_execution(result, sched, prefix)
        if max_executions and count >= max_executions:
            capped = bool(stack)
            break
        decisions = sched.decisions
        choices = [c for (_, c, _) in decisions]
        # preemptions used before decision i
        used = 0
        pre = []
        for (order, c, running_enabled) in decisions:
            pre.append(used)
            if running_enabled and c != 0:
                used += 1
        for i in range(len(prefix), len(decisions)):
            order, c, running_enabled = decisions[i]
            for alt in range(1, len(order)):
                cost = pre[i] + (1 if running_enabled else 0)
                if cost > bound:
                    continue
                stack.append(choices[:i] + [alt])
    return count, capped
