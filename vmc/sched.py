"""Controlled cooperative scheduler for the dask thread fan-out (interpreted mode).

* ControlledExecutor is handed to dask (dask.config.set(scheduler="threads", pool=executor)): every
  task dask submits becomes a real thread that only runs while it holds the baton.
* Scheduling points are calls of selected module-level functions (coo_append, coo_sum_duplicates,
  em_update_matrix, ...): the names are rebound, in the modules that use them, to wrappers that call
  Scheduler.point() first.  Exactly one task thread runs at any time; at a point (and when a task
  ends) the running thread consults the schedule and hands the baton over.
* The submitting (dask) thread signals when it is about to block waiting for results (dask.local.queue_get is
  wrapped): at that moment every ready task has been submitted, and if nobody holds the baton the next
  holder is chosen.  No timing is involved in any decision.
* A schedule is a list of choices, one per decision; choice c picks the c-th thread of the enabled
  list in canonical order (the running thread first if it is still enabled, then ascending task id).
  Decisions beyond the recorded prefix take choice 0 (keep running / lowest id).  Replaying a prefix
  whose choice is out of range is a hard error.
* explore() enumerates all schedules with at most `bound` preemptions (iterative context bounding).

dask names impure delayed tasks with uuid4 and its ready order depends on the key names, so uuid.uuid4
is pinned to a counter for the duration of a controlled run; otherwise recorded schedules do not replay.
"""
from __future__ import annotations

import threading
import uuid
from concurrent.futures import Executor, Future


class ScheduleError(RuntimeError):
    pass


def reachable_arrays(root, max_nodes=20000):
    """Every numpy array (and the arrays of every scipy sparse matrix) reachable from `root` through tuples, lists, dicts,
    object attributes, closures, partials and defaults.  Returns {id: array}."""
    import types
    import numpy as np
    try:
        import scipy.sparse as sp
    except Exception:       # pragma: no cover
        sp = None
    found, seen, stack, n = {}, set(), [root], 0
    while stack and n < max_nodes:
        x = stack.pop()
        if id(x) in seen:
            continue
        seen.add(id(x))
        n += 1
        if isinstance(x, np.ndarray):
            if x.dtype != object:
                found[id(x)] = x
            else:
                stack.extend(x.ravel().tolist())
            continue
        if sp is not None and sp.issparse(x):
            for name in ("data", "indices", "indptr", "row", "col"):
                a = getattr(x, name, None)
                if isinstance(a, np.ndarray):
                    found[id(a)] = a
            continue
        if isinstance(x, (str, bytes, int, float, bool, type(None), complex, type, types.ModuleType)):
            continue
        if isinstance(x, dict):
            stack.extend(x.values())
            continue
        if isinstance(x, (list, tuple, set, frozenset)):
            stack.extend(x)
            continue
        if isinstance(x, types.MethodType):
            stack.append(x.__self__)
            stack.append(x.__func__)
            continue
        if isinstance(x, types.FunctionType):
            if x.__closure__:
                for c in x.__closure__:
                    try:
                        stack.append(c.cell_contents)
                    except ValueError:
                        pass
            if x.__defaults__:
                stack.extend(x.__defaults__)
            if x.__kwdefaults__:
                stack.extend(x.__kwdefaults__.values())
            continue
        if hasattr(x, "func") and hasattr(x, "args"):          # functools.partial, dask Task
            stack.append(getattr(x, "func", None))
            stack.append(getattr(x, "args", None))
            stack.append(getattr(x, "kwargs", None) or getattr(x, "keywords", None))
        d = getattr(x, "__dict__", None)
        if isinstance(d, dict):
            stack.extend(d.values())
        slots = getattr(type(x), "__slots__", ())
        for name in (slots if isinstance(slots, (list, tuple)) else ()):
            try:
                stack.append(getattr(x, name))
            except Exception:
                pass
        if hasattr(x, "__iter__") and hasattr(x, "__len__") and not d:
            try:
                if len(x) <= 5000:
                    stack.extend(list(x))
            except Exception:
                pass
    return found


def _digests(arrays):
    import hashlib
    out = {}
    for i, a in arrays.items():
        try:
            out[i] = hashlib.blake2b(a.tobytes(), digest_size=8).digest() if a.nbytes <= (1 << 22) else (a.shape, float(a.sum()))
        except Exception:
            pass
    return out


class Scheduler:
    def __init__(self, prefix):
        self.prefix = list(prefix)
        self.lock = threading.Lock()
        self.sems = {}
        self.enabled = []        # task ids submitted and not finished
        self.running = None
        self.decisions = []      # (enabled list in canonical order, choice, running_still_enabled)
        self.next_id = 0
        self.errors = []
        self.trace = []          # (task id, point label)
        # shared-mutable-state detector: arrays reachable from each live task and their last known digests
        self.reach = {}          # task id -> {id: array}
        self.seen_digest = {}    # task id -> {id: digest} as of the last moment the task itself ran
        self.races = []          # (writer-unknown, victim task id, array shape, where)

    def _choose(self, running_enabled):
        order = sorted(self.enabled)
        if running_enabled and self.running in order:
            order.remove(self.running)
            order.insert(0, self.running)
        i = len(self.decisions)
        if i < len(self.prefix):
            c = self.prefix[i]
            if c >= len(order):
                raise ScheduleError("choice %d out of range at decision %d (enabled %s)" % (c, i, order))
        else:
            c = 0
        self.decisions.append((tuple(order), c, bool(running_enabled and self.running in self.enabled)))
        return order[c]

    # -- called by the submitting (dask) thread
    def submit(self):
        with self.lock:
            tid = self.next_id
            self.next_id += 1
            self.sems[tid] = threading.Semaphore(0)
            return tid

    def enable(self, tid, roots=None):
        with self.lock:
            self.enabled.append(tid)
            if roots is not None:
                self.reach[tid] = reachable_arrays(roots)
                self.seen_digest[tid] = _digests(self.reach[tid])

    def _check_foreign_writes(self, tid, where):
        """Called when task `tid` is about to run again (or to finish): an array it can reach whose content changed while
        the task was NOT running was written by another concurrently live task - unsynchronised shared mutable state."""
        now = _digests(self.reach.get(tid, {}))
        old = self.seen_digest.get(tid, {})
        for i, dg in now.items():
            if i in old and old[i] != dg:
                a = self.reach[tid][i]
                self.races.append((tid, tuple(a.shape), str(a.dtype), where))
        self.seen_digest[tid] = now

    def _note_own_writes(self, tid):
        self.seen_digest[tid] = _digests(self.reach.get(tid, {}))

    def on_idle(self):
        """The submitting thread is about to block waiting for a result: every ready task has been
        submitted.  If no task holds the baton, pick the next one."""
        start = None
        with self.lock:
            if self.running is None and self.enabled:
                try:
                    start = self._choose(False)
                except ScheduleError as e:
                    self.errors.append(e)
                    start = sorted(self.enabled)[0]
                self.running = start
        if start is not None:
            self.sems[start].release()

    # -- called by task threads
    def wait_turn(self, tid):
        if not self.sems[tid].acquire(timeout=60):
            raise ScheduleError("task %d was never scheduled (deadlock)" % tid)
        with self.lock:
            self._check_foreign_writes(tid, "before its first step")

    def point(self, label):
        tid = getattr(_local, "tid", None)
        if tid is None:
            return                      # not a controlled thread (e.g. the sequential reference run)
        with self.lock:
            self.trace.append((tid, label))
            try:
                nxt = self._choose(True)
            except ScheduleError as e:
                self.errors.append(e)
                nxt = tid
            self.running = nxt
            if nxt != tid:
                self._note_own_writes(tid)
        if nxt != tid:
            self.sems[nxt].release()
            if not self.sems[tid].acquire(timeout=60):
                raise ScheduleError("task %d never got the baton back" % tid)
            with self.lock:
                self._check_foreign_writes(tid, "at scheduling point %s" % label)

    def finish(self, tid):
        """The task is done: it gives the baton up; the next holder is chosen when the submitting thread
        goes idle again (after it has submitted whatever became ready)."""
        with self.lock:
            self.enabled.remove(tid)
            self.running = None
            # what this task wrote is visible to the tasks that are still live: they will notice at their next step
            self.reach.pop(tid, None)
            self.seen_digest.pop(tid, None)


_local = threading.local()


class ControlledExecutor(Executor):
    def __init__(self, sched, max_workers=8):
        self.sched = sched
        self._max_workers = max_workers
        self.threads = []

    def submit(self, fn, *args, **kwargs):
        fut = Future()
        sched = self.sched
        tid = sched.submit()

        def body():
            _local.tid = tid
            sched.wait_turn(tid)
            result, exc = None, None
            try:
                result = fn(*args, **kwargs)
            except BaseException as e:      # noqa
                exc = e
            _local.tid = None
            sched.finish(tid)               # before the future completes: the submitter decides afterwards
            if exc is not None:
                fut.set_exception(exc)
            else:
                fut.set_result(result)

        t = threading.Thread(target=body, daemon=True)
        t.start()
        self.threads.append(t)
        sched.enable(tid, roots=(fn, args, kwargs))
        return fut

    def shutdown(self, wait=True, **kw):
        for t in self.threads:
            t.join(timeout=10)


class patched_points:
    """Rebind `names` in `modules` to wrappers that hit a scheduling point before calling through."""

    def __init__(self, sched_ref, modules, names):
        self.sched_ref, self.modules, self.names = sched_ref, modules, names
        self.saved = []

    def __enter__(self):
        for m in self.modules:
            for n in self.names:
                if hasattr(m, n):
                    real = getattr(m, n)
                    self.saved.append((m, n, real))
                    setattr(m, n, self._wrap(real, n))
        return self

    def _wrap(self, real, label):
        ref = self.sched_ref

        def wrapper(*a, **kw):
            s = ref[0]
            if s is not None:
                s.point(label)
            return real(*a, **kw)
        wrapper.__name__ = getattr(real, "__name__", label)
        return wrapper

    def __exit__(self, *exc):
        for m, n, real in self.saved:
            setattr(m, n, real)


class pinned_uuid:
    def __enter__(self):
        self.saved = uuid.uuid4
        counter = [0]

        def fake():
            counter[0] += 1
            return uuid.UUID(int=counter[0])
        uuid.uuid4 = fake
        return self

    def __exit__(self, *exc):
        uuid.uuid4 = self.saved


def run_schedule(body, prefix, sched_ref):
    """Run body() (whose dask computations are handed to a ControlledExecutor) under the schedule `prefix`."""
    import dask
    import dask.local
    sched = Scheduler(prefix)
    sched_ref[0] = sched
    ex = ControlledExecutor(sched)
    orig_queue_get = dask.local.queue_get

    def queue_get(q):
        sched.on_idle()
        return orig_queue_get(q)
    dask.local.queue_get = queue_get
    try:
        with pinned_uuid():
            with dask.config.set(scheduler="threads", pool=ex):
                result = body()
    finally:
        dask.local.queue_get = orig_queue_get
        sched_ref[0] = None
        ex.shutdown()
    if sched.errors:
        raise sched.errors[0]
    return result, sched


def explore(body, sched_ref, bound, on_execution, max_executions=None):
    """Enumerate every schedule with at most `bound` preemptions.  on_execution(result, sched, prefix) is
    called for every execution.  Returns (executions, capped)."""
    count = 0
    capped = False
    stack = [[]]
    while stack:
        prefix = stack.pop()
        result, sched = run_schedule(body, prefix, sched_ref)
        count += 1
        on_execution(result, sched, prefix)
        if max_executions and count >= max_executions:
            capped = bool(stack)
            break
        decisions = sched.decisions
        choices = [c for (_, c, _) in decisions]
        # preemptions used before decision i
        used = 0
        pre = []
        for (order, c, running_enabled) in decisions:
            pre.append(used)
            if running_enabled and c != 0:
                used += 1
        for i in range(len(prefix), len(decisions)):
            order, c, running_enabled = decisions[i]
            for alt in range(1, len(order)):
                cost = pre[i] + (1 if running_enabled else 0)
                if cost > bound:
                    continue
                stack.append(choices[:i] + [alt])
    return count, capped
