"""./check <Cxx> [--tier quick|thorough] [--replay <file>] [--only sub,sub]"""
from __future__ import annotations

import argparse
import importlib
import json
import os
import sys
import time

from . import core
from .findings import load_known, match_known


def main(argv=None):
    ap = argparse.ArgumentParser()
    ap.add_argument("prop")
    ap.add_argument("--tier", default=os.environ.get("VERIF_TIER", "quick"), choices=["quick", "thorough"])
    ap.add_argument("--replay")
    ap.add_argument("--only")
    ap.add_argument("--no-evidence", action="store_true")
    a = ap.parse_args(argv)
    prop = a.prop.upper()
    seed = int(os.environ.get("VERIF_SEED", "0") or 0)
    sys.path.insert(0, core.VERIF)
    mod = importlib.import_module("checks.%s" % prop.lower())
    if a.replay:
        return replay(mod, prop, a.replay, seed)
    only = set(a.only.split(",")) if a.only else None
    t0 = time.time()
    if not only:
        # replay files of earlier runs are stale: a VIOLATION line must point at a file written by this run
        import shutil
        shutil.rmtree(os.path.join(core.VERIF, "replays", prop), ignore_errors=True)
    phases = getattr(mod, "PHASES", None)
    if hasattr(mod, "_clean") and not only:
        mod._clean()
    if phases and not only:
        # phases run one after the other (a later phase reads what an earlier one recorded)
        subs, aggs, fatal = [], {}, []
        for names in phases:
            s_, a_, w_, f_ = core.run_check(mod, a.tier, seed, only=set(names))
            subs += s_
            aggs.update(a_)
            fatal += f_
    else:
        subs, aggs, wall, fatal = core.run_check(mod, a.tier, seed, only=only)
    known = load_known(prop)
    n_viol = 0
    n_known = 0
    lines = []
    rdir = os.path.join(core.VERIF, "replays", prop)
    per_sub = []
    for s in subs:
        g = aggs[s.name]
        exhaustive = (s.total is None or g["executed"] == s.total) and not g.get("capped")
        per_sub.append({
            "sub": s.name, "mode": s.mode, "kind": s.kind, "space": s.describe,
            "declared_total": s.total, "executed": g["executed"], "exhaustive": bool(exhaustive),
            "distinct_nontrivial": len(g["nt"]), "nontrivial_rule": s.nontrivial_rule,
            "distinct_outcomes": len(g["out"]),
            "top_outcomes": dict(g["out"].most_common(6)),
            "states": g["st"], "transitions": g["tr"], "rejected_inputs": g["rej"],
            "ambiguous": g["amb"], "worker_cpu_s": round(g["t"], 1), "crashes": g["crashes"],
            "violation_signatures": {k: v["count"] for k, v in g["viol"].items()},
            "samples": g["samples"][:2],
        })
        if not exhaustive:
            lines.append("HARNESS: sub-check %s executed %d of %s declared cases" %
                         (s.name, g["executed"], s.total))
            fatal.append((s.name, "not exhaustive"))
        for sig, slot in sorted(g["viol"].items()):
            full = "%s/%s" % (s.name, sig)
            k = match_known(known, full)
            if k is not None:
                n_known += 1
                lines.append("KNOWN-FINDING: property=%s %s [%s x%d]" % (prop, k["what"], full, slot["count"]))
                continue
            n_viol += 1
            os.makedirs(rdir, exist_ok=True)
            first = slot["first"][0]
            path = os.path.join(rdir, "%s.json" % _safe(full))
            with open(path, "w") as f:
                json.dump({"property": prop, "sub": s.name, "mode": s.mode, "tier": a.tier, "seed": seed,
                           "signature": full, "count": slot["count"], "case": first["case"],
                           "index": first["index"], "violation": first["violation"],
                           "more": slot["first"][1:]}, f, indent=1, default=str)
            lines.append("VIOLATION property=%s replay=%s" % (prop, path))
            lines.append("  signature=%s count=%d case=%s" % (full, slot["count"], json.dumps(first["case"], default=str)[:300]))
            lines.append("  %s" % first["violation"]["msg"][:400])
            if first["violation"].get("observed") is not None:
                lines.append("  observed=%s" % first["violation"]["observed"][:300])
            if first["violation"].get("expected") is not None:
                lines.append("  expected=%s" % first["violation"]["expected"][:300])
    for ps in per_sub:
        print("[%s] %-28s mode=%s executed=%d%s nontrivial=%d outcomes=%d states=%d transitions=%d rej=%d cpu=%.0fs sigs=%s" % (
            prop, ps["sub"], ps["mode"], ps["executed"],
            "" if ps["declared_total"] is None else "/%d" % ps["declared_total"],
            ps["distinct_nontrivial"], ps["distinct_outcomes"], ps["states"], ps["transitions"],
            ps["rejected_inputs"], ps["worker_cpu_s"], ps["violation_signatures"] or "-"))
    for l in lines:
        print(l)
    harness_broken = bool(fatal)
    if not a.no_evidence and not only:
        from .evidence import write_evidence
        write_evidence(mod, prop, a.tier, seed, per_sub, time.time() - t0, n_viol, n_known)
    print("[%s] tier=%s seed=%d wall=%.1fs violations=%d known_findings=%d%s" % (
        prop, a.tier, seed, time.time() - t0, n_viol, n_known, " HARNESS-ERROR" if harness_broken else ""))
    if n_viol:
        return 1
    if harness_broken:
        return 2
    return 0


def _safe(s):
    return "".join(c if c.isalnum() or c in "-_." else "_" for c in s)[:150]


def replay(mod, prop, path, seed):
    with open(path) as f:
        rec = json.load(f)
    r = core.run_one(mod, rec.get("tier", "quick"), rec.get("seed", seed), rec["sub"], rec["case"])
    print("replay %s sub=%s mode=%s case=%s" % (path, rec["sub"], rec.get("mode"), json.dumps(rec["case"], default=str)[:500]))
    if r["v"]:
        for v in r["v"]:
            print("  still violated: %s: %s" % (v["sig"], v["msg"]))
            print("    observed=%s" % v.get("observed"))
            print("    expected=%s" % v.get("expected"))
        print("VIOLATION property=%s replay=%s" % (prop, path))
        return 1
    print("  no violation on this tree (outcome=%s)" % r["out"])
    return 0


if __name__ == "__main__":
    sys.exit(main())
