"""Reference model of the co-occurrence definition (property C03/C11/C14).

Written from the property statement and the user documentation; float64; explicit loops over
occurrences; imports nothing from `vectorizers`.  All results are keyed by *labels*:
    {(row_label, column_label): value}
with column labels "pre_<i>_<token>" / "post_<i>_<token>" (i = index of the user-level window), so the
fitted dictionaries are part of what is compared.
"""
from __future__ import annotations

import math
from fractions import Fraction


def expand_windows(radii, orientations, kernel, kernel_args=None, mix_weights=None, window_function="fixed",
                   window_args=None):
    """User-level windows -> list of directed windows in declared column-block order."""
    if isinstance(orientations, str):
        orientations = [orientations] * len(radii)
    if mix_weights is None:
        mix_weights = [1.0] * len(radii)
    out = []
    for i, (r, o) in enumerate(zip(radii, orientations)):
        ka = dict(kernel_args[i]) if isinstance(kernel_args, (list, tuple)) else dict(kernel_args or {})
        wa = dict(window_args[i]) if isinstance(window_args, (list, tuple)) else dict(window_args or {})
        base = dict(radius=r, kernel=kernel, kargs=ka, mix=float(mix_weights[i]), wfun=window_function, wargs=wa, user=i)
        if o == "directional":
            out.append(dict(base, before=True, prefix="pre_%d_" % i))
            out.append(dict(base, before=False, prefix="post_%d_" % i))
        elif o == "before":
            out.append(dict(base, before=True, prefix="pre_%d_" % i))
        elif o == "after":
            out.append(dict(base, before=False, prefix="post_%d_" % i))
        else:
            raise ValueError(o)
    return out


def vocabulary(corpus_tokens, kept=None, mask=None):
    """Sorted kept tokens -> index; mask (if any) is one extra entry with the last index."""
    toks = sorted(set(corpus_tokens) if kept is None else set(kept))
    if mask is not None and mask in toks:
        toks.remove(mask)
    labels = list(toks)
    if mask is not None:
        labels.append(mask)
    return labels


def apply_vocabulary(seq, kept, mask):
    """Stated rule: without a mask removed tokens are deleted; with a mask they are replaced in place."""
    if mask is None:
        return [t for t in seq if t in kept]
    return [t if (t in kept and t != mask) else mask for t in seq]


def round_half_even(x):
    return int(round(x))  # Python's round is half-to-even, like numpy.round


def radii_for(win, labels, freq, mask, nullify, ambiguous):
    """Per-token radius of one directed window.  freq: token -> relative frequency in the raw corpus."""
    R = win["radius"]
    out = {}
    if win["wfun"] == "fixed":
        for t in labels:
            out[t] = R
    else:
        power = win["wargs"].get("power", 0.75)
        toks = [t for t in labels if t != mask or mask is None]
        toks = [t for t in labels if not (mask is not None and t == mask)]
        denom = sum((freq[t] ** (power - 1)) * freq[t] for t in toks)
        raw = {t: (freq[t] ** (power - 1)) / denom * R for t in toks}
        if mask is not None:
            raw[mask] = min(raw.values())      # the mask gets the smallest radius
        for t, x in raw.items():
            if 0 < x < 1:
                x = 1.0
            frac = x - math.floor(x)
            if abs(frac - 0.5) < 1e-4 or abs(x - 1.0) < 1e-6 and x < 1.0:
                ambiguous.append((t, x))
            out[t] = round_half_even(x)
    if nullify and mask is not None:
        out[mask] = 0
    return out


def kernel_weights(win, contexts, mask, nullify, dists=None, delta=None):
    """Weights for contexts listed nearest-first.  dists: for timed kernels the |time differences|."""
    n = len(contexts)
    k = win["kernel"]
    ka = win["kargs"]
    if dists is not None:       # timed kernels
        if k == "flat":
            w = [1.0] * n
        elif k == "geometric":
            p = ka.get("power", 0.9)
            w = [p ** (d / delta) for d in dists]
        else:
            raise ValueError(k)
    else:
        if k == "flat":
            w = [1.0] * n
        elif k == "harmonic":
            w = [1.0 / d for d in range(1, n + 1)]
        elif k == "geometric":
            p = ka.get("power", 0.9)
            w = [p ** d for d in range(1, n + 1)]
        else:
            raise ValueError(k)
    if nullify and mask is not None:
        w = [0.0 if c == mask else x for c, x in zip(contexts, w)]
    off = ka.get("offset", 0)
    for j in range(min(off, n)):
        w[j] = 0.0
    if ka.get("normalize", False):
        s = sum(w)
        if s > 0:
            w = [x / s for x in w]
    return [win["mix"] * x for x in w]


def token_cooccurrence(corpus, windows, normalize_windows=True, kept=None, mask=None, nullify=False,
                       freq=None, ngram_size=1, kept_ngrams=None, timed=False):
    """corpus: list of sequences of tokens (or of (token, time) pairs when timed).
    Returns (cells, row_labels, token_labels, ambiguous)."""
    tok = (lambda x: x[0]) if timed else (lambda x: x)
    all_tokens = [tok(x) for s in corpus for x in s]
    kept_set = set(all_tokens) if kept is None else set(kept)
    labels = vocabulary(all_tokens, kept_set, mask)
    if freq is None:
        n = len(all_tokens)
        freq = {t: all_tokens.count(t) / n for t in set(all_tokens)}
    seqs = []
    for s in corpus:
        if timed:
            if mask is None:
                seqs.append([(t, tm) for (t, tm) in s if t in kept_set])
            else:
                seqs.append([((t if (t in kept_set and t != mask) else mask), tm) for (t, tm) in s])
        else:
            seqs.append(apply_vocabulary(list(s), kept_set, mask))
    delta = None
    if timed:
        tot, cnt = 0.0, 0
        for s in seqs:
            for a, b in zip(s, s[1:]):
                tot += b[1] - a[1]
                cnt += 1
        delta = tot / (cnt if cnt else 1)
    ambiguous = []
    cells = {}
    # rows: tokens (ngram_size 1) or kept n-grams
    if ngram_size > 1:
        grams = sorted({tuple(s[i:i + ngram_size]) for s in seqs for i in range(len(s) - ngram_size + 1)})
        if kept_ngrams is not None:
            grams = [g for g in grams if g in kept_ngrams]
        row_labels = ["_".join(str(t) for t in g) for g in grams]
        n_g = sum(max(0, len(s) - ngram_size + 1) for s in seqs)
        gfreq = {}
        for s in seqs:
            for i in range(len(s) - ngram_size + 1):
                g = "_".join(str(t) for t in s[i:i + ngram_size])
                gfreq[g] = gfreq.get(g, 0) + 1.0 / n_g
        radii = [radii_for(w, row_labels, gfreq, None, False, ambiguous) for w in windows]
    else:
        row_labels = labels
        radii = [radii_for(w, labels, freq, mask, nullify, ambiguous) for w in windows]
    for s in seqs:
        toks = [tok(x) for x in s]
        times = [x[1] for x in s] if timed else None
        for p in range(ngram_size - 1, len(s)):
            if ngram_size > 1:
                row = "_".join(str(t) for t in toks[p - ngram_size + 1:p + 1])
                if row not in row_labels:
                    continue
                first, last = p - ngram_size + 1, p
            else:
                row = toks[p]
                first = last = p
            per_window = []
            for wi, w in enumerate(windows):
                r = radii[wi][row]
                if w["before"]:
                    pos = list(range(first - 1, max(first - r, 0) - 1, -1))
                    anchor = first
                else:
                    pos = list(range(last + 1, min(last + r, len(s) - 1) + 1))
                    anchor = last
                ctx = [toks[q] for q in pos]
                dists = [abs(times[q] - times[anchor]) for q in pos] if timed else None
                per_window.append((ctx, kernel_weights(w, ctx, mask, nullify, dists, delta)))
            total = 1.0
            if normalize_windows:
                t = sum(sum(k) for _, k in per_window)
                if t > 0:
                    total = t
            for w, (ctx, ker) in zip(windows, per_window):
                for c, k in zip(ctx, ker):
                    v = k / total
                    if v > 0:
                        key = (row, w["prefix"] + str(c))
                        cells[key] = cells.get(key, 0.0) + v
    return cells, row_labels, labels, ambiguous


def multiset_cooccurrence(corpus, windows, normalize_windows=True, kept=None, mask=None, nullify=False):
    """corpus: list of documents; a document is a list of multisets (lists) of tokens.
    Windows run over neighbouring multisets; the occurrence's own multiset is included, its own position
    excluded; weight by multiset distance m: flat 1, geometric power**m."""
    all_tokens = [t for d in corpus for m in d for t in m]
    kept_set = set(all_tokens) if kept is None else set(kept)
    labels = vocabulary(all_tokens, kept_set, mask)
    cells = {}
    for doc in corpus:
        msets = [apply_vocabulary(list(m), kept_set, mask) for m in doc]
        for d, ms in enumerate(msets):
            for j, t in enumerate(ms):
                if nullify and mask is not None and t == mask:
                    continue        # the mask contributes nothing: its row is zero
                per_window = []
                for w in windows:
                    r = w["radius"]
                    if w["before"]:
                        idx = list(range(d, max(d - r, 0) - 1, -1))
                    else:
                        idx = list(range(d, min(d + r, len(msets) - 1) + 1))
                    ctx, ker = [], []
                    for m_dist, q in enumerate(idx):
                        for jj, c in enumerate(msets[q]):
                            if w["kernel"] == "flat":
                                k = 1.0
                            elif w["kernel"] == "geometric":
                                k = w["kargs"].get("power", 0.9) ** m_dist
                            else:
                                raise ValueError(w["kernel"])
                            if q == d and jj == j:
                                k = 0.0
                            if nullify and mask is not None and c == mask:
                                k = 0.0
                            ctx.append(c)
                            ker.append(k)
                    if w["kargs"].get("normalize", False):
                        s = sum(ker)
                        if s > 0:
                            ker = [x / s for x in ker]
                    per_window.append((ctx, [w["mix"] * x for x in ker]))
                total = 1.0
                if normalize_windows:
                    tt = sum(sum(k) for _, k in per_window)
                    if tt > 0:
                        total = tt
                for w, (ctx, ker) in zip(windows, per_window):
                    for c, k in zip(ctx, ker):
                        v = k / total
                        if v > 0:
                            key = (t, w["prefix"] + str(c))
                            cells[key] = cells.get(key, 0.0) + v
    return cells, labels, labels, []


def matrix_to_cells(mat, row_index_to_label, col_index_to_label):
    """Implementation output -> label-keyed cells (explicit zeros dropped)."""
    m = mat.tocoo()
    out = {}
    for r, c, v in zip(m.row.tolist(), m.col.tolist(), m.data.tolist()):
        if v != 0:
            key = (row_index_to_label[r], col_index_to_label[c])
            out[key] = out.get(key, 0.0) + v
    return out


def compare_cells(got, exp, rtol=1e-5, atol=1e-7):
    """Returns None if equal within tolerance else a short description of the first differences."""
    bad = []
    for k in sorted(set(got) | set(exp), key=repr):
        g, e = got.get(k, 0.0), exp.get(k, 0.0)
        if abs(g - e) > atol + rtol * max(abs(g), abs(e)):
            bad.append((k, g, e))
            if len(bad) >= 4:
                break
    return bad or None


# ---------------------------------------------------------------------------------------------
# EM refinement (property C11): dense float64 transcription of the documented procedure
# ---------------------------------------------------------------------------------------------

def _normalise_columns(cells):
    sums = {}
    for (r, c), v in cells.items():
        sums[c] = sums.get(c, 0.0) + abs(v)
    return {(r, c): (v / sums[c]) for (r, c), v in cells.items() if sums[c] > 0}


def _threshold(cells, eps):
    return {k: v for k, v in cells.items() if not (v < eps) and v != 0}


def em_chain(corpus, windows, n_iter, epsilon, normalize_windows=True, kind="token", **kw):
    """Returns the list of matrices [after initial normalise/threshold, after iteration 1, ...] and
    per-iteration bookkeeping of the mass each row received (must equal its number of contributing
    occurrences).  kind: token | timed | ngram | multiset."""
    if kind == "multiset":
        cells, rows, labels, amb = multiset_cooccurrence(corpus, windows, normalize_windows, **kw)
    else:
        cells, rows, labels, amb = token_cooccurrence(corpus, windows, normalize_windows, timed=(kind == "timed"), **kw)
    if n_iter == 0 and epsilon == 0:
        return [cells], rows, labels, amb
    m = _threshold(_normalise_columns(cells), epsilon)
    chain = [m]
    occ = list(_occurrences(corpus, windows, kind, **kw))
    for _ in range(n_iter):
        post = {}
        for row, per_window in occ:
            p = []
            for w, (ctx, ker) in zip(windows, per_window):
                for c, k in zip(ctx, ker):
                    key = (row, w["prefix"] + str(c))
                    p.append((key, k * m.get(key, 0.0) if k > 0 else 0.0))
            tot = sum(x for _, x in p)
            if tot > 0:
                for key, x in p:
                    if x > 0:
                        post[key] = post.get(key, 0.0) + x / tot
        m = _threshold(_normalise_columns(post), epsilon)
        chain.append(m)
    return chain, rows, labels, amb


def _occurrences(corpus, windows, kind, kept=None, mask=None, nullify=False, freq=None, ngram_size=1,
                 kept_ngrams=None):
    """Yield (row_label, [(contexts, mix*kernel weights) per window]) for every occurrence, exactly as in
    the n_iter=0 definition but without window normalisation."""
    timed = kind == "timed"
    if kind == "multiset":
        all_tokens = [t for d in corpus for m in d for t in m]
        kept_set = set(all_tokens) if kept is None else set(kept)
        for doc in corpus:
            msets = [apply_vocabulary(list(m), kept_set, mask) for m in doc]
            for d, ms in enumerate(msets):
                for j, t in enumerate(ms):
                    if nullify and mask is not None and t == mask:
                        continue
                    per_window = []
                    for w in windows:
                        r = w["radius"]
                        idx = list(range(d, max(d - r, 0) - 1, -1)) if w["before"] else list(range(d, min(d + r, len(msets) - 1) + 1))
                        ctx, ker = [], []
                        for m_dist, q in enumerate(idx):
                            for jj, c in enumerate(msets[q]):
                                k = 1.0 if w["kernel"] == "flat" else w["kargs"].get("power", 0.9) ** m_dist
                                if (q == d and jj == j) or (nullify and mask is not None and c == mask):
                                    k = 0.0
                                ctx.append(c)
                                ker.append(k)
                        if w["kargs"].get("normalize", False):
                            s = sum(ker)
                            if s > 0:
                                ker = [x / s for x in ker]
                        per_window.append((ctx, [w["mix"] * x for x in ker]))
                    yield t, per_window
        return
    tok = (lambda x: x[0]) if timed else (lambda x: x)
    all_tokens = [tok(x) for s in corpus for x in s]
    kept_set = set(all_tokens) if kept is None else set(kept)
    labels = vocabulary(all_tokens, kept_set, mask)
    if freq is None:
        n = len(all_tokens)
        freq = {t: all_tokens.count(t) / n for t in set(all_tokens)}
    seqs = []
    for s in corpus:
        if timed:
            seqs.append([(t, tm) for (t, tm) in s if t in kept_set] if mask is None else
                        [((t if (t in kept_set and t != mask) else mask), tm) for (t, tm) in s])
        else:
            seqs.append(apply_vocabulary(list(s), kept_set, mask))
    delta = None
    if timed:
        tot, cnt = 0.0, 0
        for s in seqs:
            for a, b in zip(s, s[1:]):
                tot += b[1] - a[1]
                cnt += 1
        delta = tot / (cnt if cnt else 1)
    amb = []
    if ngram_size > 1:
        grams = sorted({tuple(tok(x) for x in s[i:i + ngram_size]) for s in seqs for i in range(len(s) - ngram_size + 1)})
        if kept_ngrams is not None:
            grams = [g for g in grams if g in kept_ngrams]
        row_labels = ["_".join(str(t) for t in g) for g in grams]
        radii = [radii_for(w, row_labels, {g: 1.0 for g in row_labels}, None, False, amb) if w["wfun"] == "fixed" else None for w in windows]
    else:
        row_labels = labels
        radii = [radii_for(w, labels, freq, mask, nullify, amb) for w in windows]
    for s in seqs:
        toks = [tok(x) for x in s]
        times = [x[1] for x in s] if timed else None
        for p in range(ngram_size - 1, len(s)):
            if ngram_size > 1:
                row = "_".join(str(t) for t in toks[p - ngram_size + 1:p + 1])
                if row not in row_labels:
                    continue
                first, last = p - ngram_size + 1, p
            else:
                row = toks[p]
                first = last = p
            per_window = []
            for wi, w in enumerate(windows):
                r = radii[wi][row]
                if w["before"]:
                    pos = list(range(first - 1, max(first - r, 0) - 1, -1))
                    anchor = first
                else:
                    pos = list(range(last + 1, min(last + r, len(s) - 1) + 1))
                    anchor = last
                ctx = [toks[q] for q in pos]
                dists = [abs(times[q] - times[anchor]) for q in pos] if timed else None
                per_window.append((ctx, kernel_weights(w, ctx, mask, nullify, dists, delta)))
            yield row, per_window
