"""Registry of the package's estimators for the cross-cutting checks (C01, C02, C10, C12, C13).

Each Spec describes, for one estimator family: its configurations, small training sets, a pool of
transform items (including the empty item, items longer than anything trained on and items with unseen
vocabulary), how to pack a list of items into the arguments of fit/transform, and how to split an
output into one comparable value per item.
"""
from __future__ import annotations

import itertools

import numpy as np
import scipy.sparse as sp


class Spec:
    name = ""
    row_wise = True          # one output row per input item
    tol = 0.0                # comparison tolerance for rows
    has_fit_transform = True

    def configs(self, tier):
        return [{}]

    def make(self, cfg):
        raise NotImplementedError

    def train_sets(self, cfg, tier):
        raise NotImplementedError

    def pool(self, cfg, tier):
        raise NotImplementedError

    def pack(self, items, cfg):
        """-> (X, kwargs) for fit/transform"""
        return list(items), {}

    def rows(self, out, n):
        """split an output into n comparable per-item values"""
        if sp.issparse(out):
            a = out.toarray()
            return [a[i] for i in range(a.shape[0])]
        if isinstance(out, np.ndarray):
            return [out[i] for i in range(out.shape[0])]
        return [np.asarray(r) for r in out]

    def width(self, est, cfg):
        """number of output columns fixed at fit (None when the output has no columns)"""
        d = getattr(est, "column_label_dictionary_", None)
        return len(d) if d is not None else None

    def same(self, a, b):
        a, b = np.asarray(a), np.asarray(b)
        if a.shape != b.shape:
            return False
        if a.dtype.kind in "OUS" or b.dtype.kind in "OUS":
            return a.tolist() == b.tolist()
        if self.tol == 0:
            return bool(np.array_equal(a, b))
        return bool(np.allclose(a, b, rtol=self.tol, atol=self.tol))

    def valid_train(self, items, cfg):
        return True


def _strings(alphabet, maxlen):
    out = []
    for n in range(0, maxlen + 1):
        for t in itertools.product(alphabet, repeat=n):
            out.append("".join(t))
    return out


class NgramSpec(Spec):
    name = "ngram"

    def configs(self, tier):
        base = [{"ngram_size": n, "ngram_behaviour": b} for n in (1, 2) for b in ("exact", "subgrams")]
        # pairs of settings: n-gram size with a pruning bound, a supplied vocabulary whose order is not alphabetical
        return base + [{"ngram_size": 2, "ngram_behaviour": "exact", "min_occurrences": 2},
                       {"ngram_size": 1, "ngram_behaviour": "exact", "token_dictionary": {"b": 0, "a": 1}},
                       {"ngram_size": 2, "ngram_behaviour": "exact", "token_dictionary": {"c": 0, "a": 1, "b": 2}}]

    def make(self, cfg):
        import vectorizers as V
        return V.NgramVectorizer(**cfg)

    def train_sets(self, cfg, tier):
        return [["ab", "bca"], ["aab", "", "cb"]]

    def pool(self, cfg, tier):
        return ["", "ab", "bca", "zaz", "abcabc", "c"]

    def pack(self, items, cfg):
        return [list(s) for s in items], {}


class SkipgramSpec(Spec):
    name = "skipgram"
    tol = 1e-6

    def configs(self, tier):
        base = [{"window_radius": r, "kernel_function": k} for r in (1, 2) for k in ("flat", "harmonic")]
        # frequency-dependent window radii, with and without a pruned vocabulary (the radii are a function of the
        # FIT-time frequencies; transform must reuse them whatever the new data's token mix is)
        var = [{"window_radius": 2, "window_function": "variable"},
               {"window_radius": 2, "window_function": "variable", "min_occurrences": 2},
               {"window_radius": 1, "window_function": "variable", "ignored_tokens": {"a"}},
               {"window_radius": 2, "window_function": "variable", "ignored_tokens": {"a"}},
               {"window_radius": 2, "min_occurrences": 2, "kernel_function": "harmonic"}]
        return base + var

    def make(self, cfg):
        import vectorizers as V
        return V.SkipgramVectorizer(**cfg)

    def train_sets(self, cfg, tier):
        if cfg.get("window_function") == "variable" or "min_occurrences" in cfg:
            return [["ababbaab", "bcabab", "aad"], ["aabaabbb", "", "cbcbab", "abd"]]
        return [["ab", "bca"], ["aab", "", "cb"]]

    def pool(self, cfg, tier):
        return ["", "ab", "bca", "zaz", "abcabc", "c"]

    def pack(self, items, cfg):
        return [list(s) for s in items], {}


class LZSpec(Spec):
    name = "lz"

    def configs(self, tier):
        return [{"max_columns": None, "max_dict_size": 65536}, {"max_columns": None, "max_dict_size": 3},
                {"max_columns": None, "max_dict_size": 65536, "base_dictionary": {"a": 1, "b": 1}},
                # a base dictionary that already fills the phrase dictionary: nothing can be added, only counts change
                {"max_columns": None, "max_dict_size": 2, "base_dictionary": {"a": 1, "b": 1}},
                {"max_columns": None, "max_dict_size": 3, "base_dictionary": {"a": 1}}]

    def make(self, cfg):
        import vectorizers as V
        return V.LZCompressionVectorizer(**cfg)

    def train_sets(self, cfg, tier):
        return [["abab", "ba"], ["aab", "", "bbb"]]

    def pool(self, cfg, tier):
        return ["", "ab", "abab", "zaz", "abababab", "b"]


class LZHashedSpec(LZSpec):
    name = "lz_hashed"
    interpretable = False     # murmur hash overflows under NUMBA_DISABLE_JIT

    def configs(self, tier):
        return [{"max_columns": 16, "max_dict_size": 65536, "random_state": 7}]


class BPESpec(Spec):
    name = "bpe"

    def configs(self, tier):
        base = [{"return_type": rt, "max_vocab_size": m} for rt in ("sequences", "tokens", "matrix") for m in (2, 10000)]
        return base + [{"return_type": "matrix", "max_vocab_size": 3, "min_token_occurrence": 2},
                       {"return_type": "sequences", "max_vocab_size": 10000, "min_token_occurrence": 2}]

    def make(self, cfg):
        import vectorizers as V
        return V.BytePairEncodingVectorizer(**cfg)

    def train_sets(self, cfg, tier):
        return [["abab", "bab"], ["aaab", "", "aab"]]

    def pool(self, cfg, tier):
        return ["", "ab", "abab", "zaz", "abababab", "b"]

    def width(self, est, cfg):
        return len(est.column_label_dictionary_) if cfg["return_type"] == "matrix" else None


class HistogramSpec(Spec):
    name = "histogram"

    def configs(self, tier):
        base = [{"n_components": n, "strategy": s, "append_outlier_bins": o} for n in (2, 3) for s in ("uniform", "quantile") for o in (False, True)]
        # bins that do not cover the real line: values outside the absolute range fall into no bin
        return base + [{"n_components": 2, "strategy": "uniform", "append_outlier_bins": o, "absolute_range": (0.0, 20.0)} for o in (False, True)]

    def make(self, cfg):
        import vectorizers as V
        return V.HistogramVectorizer(**cfg)

    def train_sets(self, cfg, tier):
        return [[[0.0, 1.0, 3.5], [2.0, 7.0]], [[0.5, 0.5, 10.0], []]]

    def pool(self, cfg, tier):
        return [[], [1.0], [0.0, 10.0, 3.5], [-1e9, 1e9], [2.0, 2.0, 2.0, 7.0, 0.5, 1.0], [-1.0, -2.0, 0.0, 20.0, 25.0]]

    def pack(self, items, cfg):
        return [np.array(x, dtype=np.float64) for x in items], {}

    def width(self, est, cfg):
        return len(est.bin_intervals_)


class KDESpec(Spec):
    name = "kde"
    tol = 1e-12

    def configs(self, tier):
        return [{"n_components": 3, "bandwidth": 0.5}, {"n_components": 5, "bandwidth": 2.0}]

    def make(self, cfg):
        import vectorizers as V
        return V.KDEVectorizer(**cfg)

    def train_sets(self, cfg, tier):
        return [[[0.0, 1.0, 3.5], [2.0, 7.0]], [[0.5, 0.5, 10.0], [1.0]]]

    def pool(self, cfg, tier):
        return [[1.0], [0.0, 10.0, 3.5], [-1e3, 1e3], [2.0, 2.0, 2.0, 7.0, 0.5, 1.0]]

    def pack(self, items, cfg):
        return [np.array(x, dtype=np.float64) for x in items], {}

    def width(self, est, cfg):
        return cfg["n_components"]


class DistributionSpec(Spec):
    name = "distribution"
    tol = 1e-9

    def configs(self, tier):
        return [{"n_components": 2, "random_state": 5}]

    def make(self, cfg):
        import vectorizers as V
        return V.DistributionVectorizer(**cfg)

    def train_sets(self, cfg, tier):
        return [[[[0.0, 0.0], [1.0, 0.1], [0.1, 1.0]], [[5.0, 5.0], [5.5, 4.0], [4.0, 6.0]]]]

    def pool(self, cfg, tier):
        return [[[0.0, 0.0]], [[5.0, 5.0], [0.0, 1.0]], [[100.0, -100.0]], [[1.0, 1.0], [2.0, 2.0], [3.0, 3.0], [4.0, 4.0]]]

    def pack(self, items, cfg):
        return [np.array(x, dtype=np.float64) for x in items], {}

    def width(self, est, cfg):
        return cfg["n_components"]


VEC4 = np.array([[1.0, 0.2], [0.3, 1.0], [1.0, 1.5], [2.0, 0.1]])


class WassersteinSpec(Spec):
    name = "wasserstein"
    tol = 1e-5

    def configs(self, tier):
        # memory_size 48 / 96 / 144 bytes = transform blocks of 1 / 2 / 3 rows (LOT dimension 3 x 2 doubles)
        # "50k": blocks of ~1000 rows, i.e. more rows than the kernels' internal chunk of 256 rows fit into one block
        return [{"metric": m, "memory_size": ms} for m in ("cosine", "euclidean") for ms in ("2G", "48", "96", "144", "50k")]

    def make(self, cfg):
        import vectorizers as V
        return V.WassersteinVectorizer(n_components=6, reference_size=3, random_state=3, **cfg)

    def train_sets(self, cfg, tier):
        return [[[1, 2, 0, 1], [0, 1, 1, 0], [3, 0, 0, 1], [1, 1, 1, 1], [0, 0, 2, 1]]]

    def pool(self, cfg, tier):
        return [[1, 0, 0, 0], [1, 2, 0, 1], [0, 0, 5, 5], [1, 1, 1, 1], [0, 3, 0, 0.5]]

    def pack(self, items, cfg):
        return sp.csr_matrix(np.array(items, dtype=np.float64).reshape(len(items), 4)), {"vectors": VEC4.copy()}

    def width(self, est, cfg):
        return est.components_.shape[0]


class WassersteinLilSpec(WassersteinSpec):
    name = "wasserstein_lil"

    def make(self, cfg):
        import vectorizers as V
        return V.WassersteinVectorizer(n_components=6, reference_size=3, random_state=3, input_method="lil", **cfg)

    def pack(self, items, cfg):
        X, vs = [], []
        for row in items:
            row = np.asarray(row, dtype=np.float64)
            nz = np.nonzero(row)[0]
            X.append(row[nz].copy())
            vs.append(np.ascontiguousarray(VEC4[nz]))
        return X, {"vectors": vs}


class SinkhornSpec(WassersteinSpec):
    name = "sinkhorn"
    tol = 1e-4

    def configs(self, tier):
        return [{"metric": m, "chunk_size": c, "memory_size": ms} for m in ("cosine", "euclidean") for c, ms in ((1, "2G"), (2, "2G"), (32, "2G"), (32, "96"), (2, "144"))]

    def make(self, cfg):
        import vectorizers as V
        return V.SinkhornVectorizer(n_components=6, reference_size=3, random_state=3, **cfg)


VEC5 = np.vstack([VEC4, [[1000.0, 1000.0]]])


class SinkhornFarSpec(SinkhornSpec):
    """a support vector so far away that its transport cost underflows the Sinkhorn kernel"""
    name = "sinkhorn_far"

    def configs(self, tier):
        return [{"metric": "euclidean", "chunk_size": c} for c in (1, 32)]

    def train_sets(self, cfg, tier):
        return [[[1, 2, 0, 1, 0], [0, 1, 1, 0, 0], [3, 0, 0, 1, 0], [1, 1, 1, 1, 0], [0, 0, 2, 1, 0]]]

    def pool(self, cfg, tier):
        return [[0, 0, 0, 1, 1], [1, 2, 0, 1, 0], [0, 3, 1, 0, 0]]

    def pack(self, items, cfg):
        return sp.csr_matrix(np.array(items, dtype=np.float64).reshape(len(items), 5)), {"vectors": VEC5.copy()}


VEC5M = np.vstack([VEC4, [[60.0, 60.0]]])


class SinkhornMidSpec(SinkhornFarSpec):
    """a support vector at distance ~85: costs well above 50 but far from the underflow of exp(-cost) (~745), so the
    Sinkhorn iterations stay finite and every row must be independent of its chunk companions"""
    name = "sinkhorn_mid"

    def pool(self, cfg, tier):
        return [[0, 0, 0, 1, 1], [1, 2, 0, 1, 0], [0, 3, 1, 0, 0], [1, 0, 0, 0, 2]]

    def pack(self, items, cfg):
        return sp.csr_matrix(np.array(items, dtype=np.float64).reshape(len(items), 5)), {"vectors": VEC5M.copy()}


class WassersteinSinkhornSpec(WassersteinSpec):
    """WassersteinVectorizer(method="LOT_sinkhorn"): the regularised plans are computed for a chunk of rows at a time; the
    pool contains an EMPTY distribution (a valid, if degenerate, item: the exact path gives it the zero vector)"""
    name = "wasserstein_sinkhorn"
    tol = 1e-4

    def configs(self, tier):
        return [{"metric": m, "method": "LOT_sinkhorn", "sinkhorn_chunk_size": c, "memory_size": ms}
                for m in ("cosine", "euclidean") for c, ms in ((1, "2G"), (2, "2G"), (2, "96"))]

    def pool(self, cfg, tier):
        return [[1, 0, 0, 0], [0, 0, 0, 0], [1, 2, 0, 1], [0, 3, 0, 0.5]]


class SinkhornEmptySpec(SinkhornSpec):
    """SinkhornVectorizer with an empty distribution in the pool"""
    name = "sinkhorn_empty"

    def configs(self, tier):
        return [{"metric": m, "chunk_size": c, "memory_size": "2G"} for m in ("cosine", "euclidean") for c in (1, 2, 32)]

    def pool(self, cfg, tier):
        return [[1, 0, 0, 0], [0, 0, 0, 0], [1, 2, 0, 1], [0, 3, 0, 0.5]]


class ApproxWassersteinSpec(WassersteinSpec):
    name = "approx_wasserstein"
    tol = 1e-9

    def configs(self, tier):
        return [{"n_components": 2}]

    def make(self, cfg):
        import vectorizers as V
        return V.ApproximateWassersteinVectorizer(random_state=3, **cfg)

    def pack(self, items, cfg):
        return sp.csr_matrix(np.array(items, dtype=np.float64).reshape(len(items), 4)), {}

    def fit_kwargs(self):
        return {"vectors": VEC4.copy()}

    def width(self, est, cfg):
        return cfg["n_components"]


class CountMatrixSpec(Spec):
    """transformers taking a count matrix: one row per matrix row"""
    ncols = 3

    def train_sets(self, cfg, tier):
        return [[[1, 0, 2], [0, 3, 1], [2, 2, 0], [5, 0, 1]]]

    def pool(self, cfg, tier):
        return [[1, 0, 2], [0, 0, 4], [7, 1, 1], [2, 2, 2], [0, 3, 0]]

    def pack(self, items, cfg):
        return sp.csr_matrix(np.array(items, dtype=np.float64).reshape(len(items), self.ncols)), {}

    def width(self, est, cfg):
        return self.ncols


class InfoWeightSpec(CountMatrixSpec):
    name = "info_weight"
    tol = 1e-12

    def configs(self, tier):
        return [{"prior_strength": p, "approx_prior": a} for p in (1e-4, 1.0) for a in (False, True)]

    def train_sets(self, cfg, tier):
        # second training matrix: a column with no entry at all and an empty row (the per-column kernels must not read
        # the first index of an empty column)
        return CountMatrixSpec.train_sets(self, cfg, tier) + [[[1, 0, 2], [0, 0, 1], [0, 0, 0], [5, 0, 1]]]

    def make(self, cfg):
        from vectorizers.transformers import InformationWeightTransformer
        return InformationWeightTransformer(**cfg)


class RowDenoiseSpec(CountMatrixSpec):
    name = "row_denoise"
    tol = 1e-6

    def configs(self, tier):
        return [{"normalize": n} for n in (False, True)]

    def make(self, cfg):
        from vectorizers.transformers import RowDenoisingTransformer
        return RowDenoisingTransformer(**cfg)


class CountCompressionSpec(CountMatrixSpec):
    name = "count_feature_compression"
    tol = 1e-6

    def configs(self, tier):
        return [{"n_components": 2, "algorithm": "randomized", "random_state": 2}, {"n_components": 3}, {"n_components": 5}]

    def make(self, cfg):
        from vectorizers.transformers import CountFeatureCompressionTransformer
        return CountFeatureCompressionTransformer(**cfg)

    def width(self, est, cfg):
        return min(cfg["n_components"], self.ncols)


class SlidingWindowSpec(Spec):
    name = "sliding_window"

    def configs(self, tier):
        return [{"window_width": 2, "window_stride": 1}, {"window_width": 3, "window_stride": 2, "window_sample": 2},
                {"window_width": 2, "kernels": [("differences", 0, 1, 1)]}]

    def make(self, cfg):
        from vectorizers.transformers import SlidingWindowTransformer
        return SlidingWindowTransformer(**cfg)

    def train_sets(self, cfg, tier):
        return [[[1.0, 2.0, 4.0, 8.0], [16.0, 32.0, 64.0]]]

    def pool(self, cfg, tier):
        # the first item is an INTEGER sequence (lists of Python ints keep an integer dtype), the others are floats with
        # fractional parts: a batch must not borrow its dtype from a neighbour
        return [[1, 2, 4, 7], [3.5, 9.25, 27.0, 81.5, 243.0], [5.0, 5.0, 5.0, 5.0], [1.5, 2.0, 4.0, 8.0, 16.0, 32.0, 64.0]]

    def pack(self, items, cfg):
        return [np.array(x, dtype=(np.int64 if all(isinstance(v, int) for v in x) else np.float64)) for x in items], {}

    def rows(self, out, n):
        return [np.asarray(r, dtype=np.float64) for r in out]

    def width(self, est, cfg):
        return None


class InfoWeightUnsortedSpec(InfoWeightSpec):
    """input handed over as CSC with unsorted in-column indices (the kernel needs sorted ones)"""
    name = "info_weight_csc_unsorted"

    def configs(self, tier):
        return [{"prior_strength": 1.0, "approx_prior": False}]

    def pack(self, items, cfg):
        M = np.array(items, dtype=np.float64).reshape(len(items), self.ncols)
        csc = sp.csc_matrix(M)
        ind, dat = csc.indices.copy(), csc.data.copy()
        for j in range(M.shape[1]):
            a, b = csc.indptr[j], csc.indptr[j + 1]
            ind[a:b] = ind[a:b][::-1]
            dat[a:b] = dat[a:b][::-1]
        out = sp.csc_matrix((dat, ind, csc.indptr.copy()), shape=M.shape)
        out.has_sorted_indices = False
        return out, {}


class RowDenoiseExplicitZeroSpec(RowDenoiseSpec):
    """input CSR that stores its zeros explicitly"""
    name = "row_denoise_explicit_zeros"

    def configs(self, tier):
        return [{"normalize": False}]

    def pack(self, items, cfg):
        M = np.array(items, dtype=np.float64).reshape(len(items), self.ncols)
        full = sp.csr_matrix((M.flatten(), np.tile(np.arange(M.shape[1]), M.shape[0]), np.arange(0, M.size + 1, M.shape[1])), shape=M.shape)
        return full, {}


ROW_WISE = [NgramSpec(), SkipgramSpec(), LZSpec(), BPESpec(), HistogramSpec(), KDESpec(), DistributionSpec(),
            WassersteinSpec(), WassersteinLilSpec(), SinkhornSpec(), ApproxWassersteinSpec(), InfoWeightSpec(),
            RowDenoiseSpec(), CountCompressionSpec(), SlidingWindowSpec()]
COMPILED_ONLY = [LZHashedSpec()]
EXTRA = [SinkhornFarSpec(), SinkhornMidSpec(), WassersteinSinkhornSpec(), SinkhornEmptySpec()]
SIDE_EFFECT = [InfoWeightUnsortedSpec(), RowDenoiseExplicitZeroSpec()]
BY_NAME = {s.name: s for s in ROW_WISE + COMPILED_ONLY + EXTRA + SIDE_EFFECT}


def fit(spec, est, items, cfg):
    X, kw = spec.pack(items, cfg)
    if hasattr(spec, "fit_kwargs"):
        kw = dict(kw, **spec.fit_kwargs())
    return est.fit(X, **kw)


def fit_transform(spec, est, items, cfg):
    X, kw = spec.pack(items, cfg)
    if hasattr(spec, "fit_kwargs"):
        kw = dict(kw, **spec.fit_kwargs())
    return est.fit_transform(X, **kw)


def transform(spec, est, items, cfg):
    X, kw = spec.pack(items, cfg)
    return est.transform(X, **kw)
