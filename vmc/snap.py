"""Deep snapshots / digests of inputs, parameter objects and fitted estimators."""
from __future__ import annotations

import hashlib
import types

import numpy as np
import scipy.sparse as sp


def snap(x, depth=0):
    """Hashable deep snapshot of an input or parameter object (contents, not identity)."""
    if depth > 6:
        return ("deep", type(x).__name__)
    if isinstance(x, np.ndarray):
        if x.dtype == object:
            return ("objarr", x.shape, tuple(snap(e, depth + 1) for e in x.ravel().tolist()))
        return ("arr", str(x.dtype), x.shape, x.tobytes())
    if sp.issparse(x):
        if x.format in ("csr", "csc", "bsr"):
            return ("sp", x.format, x.shape, x.data.tobytes(), x.indices.tobytes(), x.indptr.tobytes(), str(x.data.dtype))
        if x.format == "coo":
            return ("sp", "coo", x.shape, x.data.tobytes(), x.row.tobytes(), x.col.tobytes())
        if x.format == "lil":
            return ("sp", "lil", x.shape, repr(x.rows.tolist()), repr(x.data.tolist()))
        return ("sp", x.format, x.shape, x.tocsr().data.tobytes())
    if isinstance(x, dict):
        return ("dict", tuple((repr(k), snap(v, depth + 1)) for k, v in x.items()))     # order matters too
    if isinstance(x, (list, tuple)):
        return (type(x).__name__, tuple(snap(e, depth + 1) for e in x))
    if isinstance(x, (set, frozenset)):
        return ("set", tuple(sorted(repr(e) for e in x)))
    if isinstance(x, (str, bytes, int, float, bool, type(None), np.generic)):
        return ("v", repr(x))
    if isinstance(x, types.GeneratorType):
        return ("gen",)
    if hasattr(x, "items") and hasattr(x, "keys"):      # numba typed dict
        return ("tdict", tuple((repr(k), snap(v, depth + 1)) for k, v in x.items()))
    if hasattr(x, "__len__") and hasattr(x, "__getitem__") and not isinstance(x, type):
        try:
            return ("seq", tuple(snap(e, depth + 1) for e in x))
        except Exception:
            pass
    return ("obj", type(x).__name__)


def digest(est):
    """Digest of everything a later transform can depend on: every attribute of the estimator
    (fitted and private), recursively for nested estimators."""
    h = hashlib.blake2b(digest_size=12)

    def feed(x, depth):
        if depth > 5:
            h.update(b"<deep>")
            return
        if isinstance(x, (types.FunctionType, types.BuiltinFunctionType, types.MethodType)) or callable(x) and not hasattr(x, "__dict__"):
            h.update(("<fn %s>" % getattr(x, "__name__", "?")).encode())
            return
        if hasattr(x, "py_func"):       # numba dispatcher
            h.update(("<jit %s>" % getattr(x.py_func, "__name__", "?")).encode())
            return
        s = snap(x)
        if s[0] == "obj" and hasattr(x, "__dict__"):
            h.update(("<%s>" % type(x).__name__).encode())
            for k in sorted(vars(x)):
                if k.startswith("__"):
                    continue
                h.update(k.encode())
                feed(vars(x)[k], depth + 1)
            return
        h.update(repr(s).encode() if not isinstance(s, bytes) else s)
    feed(est, 0)
    return h.hexdigest()
