"""Core of the explorer: sub-checks, worker processes in the three execution modes, sharded
exhaustive enumeration, aggregation, violations -> replay files, known findings, evidence.

A check module (checks/cNN.py) exposes

    PROPERTY = "Cxx"; LEVEL = "exploration" | "model_checking" | "fault_enumeration"
    def subchecks(tier, seed) -> list[Sub]

A Sub is a *finite, completely enumerated* space of cases plus a function run(case) that executes the
real code on that case and compares with the oracle.  Nothing in here samples: every worker walks
the whole generator and executes the cases whose index is congruent to its shard number; the parent
checks that the executed counts add up to the size of the space.
"""
from __future__ import annotations

import hashlib
import importlib
import itertools
import json
import multiprocessing as mp
import os
import shutil
import sys
import tempfile
import time
import traceback
from collections import Counter
from multiprocessing.connection import wait as mp_wait

VERIF = os.path.dirname(os.path.dirname(os.path.abspath(__file__)))
REPO = os.environ.get("VERIF_REPO", "/repo")

MODE_ENV = {
    # interpreted: the kernels' own source under Python semantics
    "I": {"NUMBA_DISABLE_JIT": "1"},
    # compiled with bounds checks
    "B": {"NUMBA_BOUNDSCHECK": "1", "NUMBA_DISABLE_JIT": "0"},
    # what users run
    "N": {"NUMBA_DISABLE_JIT": "0"},
    # compiled, with the env-guarded verification hook lowering the accumulator threshold to 3
    "H": {"NUMBA_DISABLE_JIT": "0", "VECTORIZERS_VERIF": "1", "VECTORIZERS_VERIF_COO_LIMIT": "3"},
}


class Sub:
    """One sub-check: name, mode, enumerator, executor."""

    def __init__(self, name, mode, cases, run, describe="", shards=None, total=None,
                 kind="inputs", env=None, setup=None, timeout_s=None, conformance=False,
                 crash_sig=None, nontrivial_rule="", contiguous=False):
        self.name = name
        self.mode = mode
        self.cases = cases          # () -> iterator of JSON-able cases, deterministic order, simplest first
        self.run = run              # case -> result dict (see res())
        self.describe = describe    # bounds, in words
        self.shards = shards
        self.total = total          # declared size of the space (checked against executed) or None
        self.kind = kind            # "inputs" | "states" (BFS: result carries st/tr) | "schedules" | "faults"
        self.env = env or {}
        self.setup = setup          # optional callable run once per worker before the first case
        self.timeout_s = timeout_s
        self.conformance = conformance  # counts towards traces_validated_against_impl
        self.crash_sig = crash_sig      # case -> signature used when the worker process dies on it
        self.nontrivial_rule = nontrivial_rule
        self.contiguous = contiguous    # shards are contiguous blocks of the enumeration (needs total)


def res(violations=None, nt=None, out=None, st=0, tr=0, rej=False, amb=False, note=None):
    """Result of one case.
    violations: list of dicts {sig, msg, observed?, expected?}
    nt: hashable key identifying the non-trivial mechanism instance exercised (None = trivial)
    out: short outcome key (histogram, to expose vacuous exploration)
    st/tr: states / transitions explored inside this case (BFS cases)
    rej: input rejected cleanly by the implementation (counted, not a violation)
    """
    return {"v": violations or [], "nt": nt, "out": out, "st": st, "tr": tr, "rej": rej,
            "amb": amb, "note": note}


def viol(sig, msg, observed=None, expected=None):
    return {"sig": sig, "msg": msg, "observed": _short(observed), "expected": _short(expected)}


def _short(x, n=600):
    if x is None:
        return None
    s = x if isinstance(x, str) else repr(x)
    return s if len(s) <= n else s[:n] + "...<%d chars>" % len(s)


def _h(x):
    return int.from_bytes(hashlib.blake2b(repr(x).encode(), digest_size=8).digest(), "big")


# ---------------------------------------------------------------------------------------------
# worker side
# ---------------------------------------------------------------------------------------------

def _worker_main(conn, modname, tier, seed, mode, wid, cur):
    # environment was prepared by the parent before spawn (numba reads it at import)
    sys.path.insert(0, REPO)
    sys.path.insert(0, VERIF)
    import warnings
    warnings.filterwarnings("ignore")
    tmp = tempfile.mkdtemp(prefix="vmc-%s-%d-" % (mode, wid))
    os.environ["TMPDIR"] = tmp
    tempfile.tempdir = tmp
    os.environ["VMC_WORKER_TMP"] = tmp
    try:
        mod = importlib.import_module(modname)
        subs = {s.name: s for s in mod.subchecks(tier, seed)}
        done_setup = set()
        while True:
            job = conn.recv()
            if job is None:
                break
            kind = job[0]
            if kind == "shard":
                _, name, shard, nshards, skip = job
                sub = subs[name]
                if sub.setup and name not in done_setup:
                    sub.setup()
                    done_setup.add(name)
                conn.send(("done", name, shard, _run_shard(sub, shard, nshards, set(skip), cur)))
            elif kind == "one":
                _, name, case = job
                sub = subs[name]
                if sub.setup and name not in done_setup:
                    sub.setup()
                    done_setup.add(name)
                try:
                    r = sub.run(case)
                except Exception as e:  # harness-level: the run function itself must not raise
                    r = res([viol("harness-exception", "%s: %s" % (type(e).__name__, e),
                                  traceback.format_exc()[-1500:])])
                conn.send(("one", name, r))
    except EOFError:
        pass
    except Exception:
        try:
            conn.send(("fatal", traceback.format_exc()))
        except Exception:
            pass
    finally:
        shutil.rmtree(tmp, ignore_errors=True)


def _run_shard(sub, shard, nshards, skip, cur):
    agg = {"executed": 0, "seen": 0, "nt": set(), "out": Counter(), "viol": {}, "samples": [],
           "st": 0, "tr": 0, "rej": 0, "amb": 0, "t": 0.0}
    t0 = time.time()
    for idx, case in enumerate(sub.cases()):
        if sub.contiguous and sub.total:
            if (idx * nshards) // sub.total != shard or idx in skip:
                continue
        elif idx % nshards != shard or idx in skip:
            continue
        cur.value = idx
        try:
            r = sub.run(case)
        except Exception as e:
            r = res([viol("harness-exception", "%s: %s" % (type(e).__name__, e),
                          traceback.format_exc()[-1500:])])
        agg["executed"] += 1
        agg["st"] += r["st"]
        agg["tr"] += r["tr"]
        if r["rej"]:
            agg["rej"] += 1
        if r.get("amb"):
            agg["amb"] += 1
        if r["nt"] is not None:
            agg["nt"].add(_h(r["nt"]))
        if r["out"] is not None and (len(agg["out"]) < 2000 or r["out"] in agg["out"]):
            agg["out"][r["out"]] += 1
        if len(agg["samples"]) < 2 and (r["nt"] is not None or idx < 2):
            agg["samples"].append({"index": idx, "case": case, "outcome": r["out"], "note": r.get("note")})
        for v in r["v"]:
            slot = agg["viol"].setdefault(v["sig"], {"count": 0, "first": []})
            slot["count"] += 1
            if len(slot["first"]) < 3:
                slot["first"].append({"index": idx, "case": case, "violation": v})
    cur.value = -1
    agg["t"] = time.time() - t0
    return agg


# ---------------------------------------------------------------------------------------------
# parent side
# ---------------------------------------------------------------------------------------------

class _Worker:
    def __init__(self, ctx, modname, tier, seed, mode, wid, extra_env):
        self.mode = mode
        self.wid = wid
        self.cur = ctx.Value("q", -1)
        self.parent, child = ctx.Pipe()
        env = dict(MODE_ENV[mode])
        env.update({"NUMBA_NUM_THREADS": os.environ.get("VMC_NUMBA_THREADS", "2"),
                    "OMP_NUM_THREADS": "1", "OPENBLAS_NUM_THREADS": "1", "MKL_NUM_THREADS": "1",
                    "PYTHONHASHSEED": str(seed % 4294967295), "NUMBA_CACHE_DIR": _numba_cache_dir(mode)})
        env.update(extra_env or {})
        saved = {k: os.environ.get(k) for k in env}
        os.environ.update(env)
        try:
            self.proc = ctx.Process(target=_worker_main,
                                    args=(child, modname, tier, seed, mode, wid, self.cur), daemon=True)
            self.proc.start()
        finally:
            for k, v in saved.items():
                if v is None:
                    os.environ.pop(k, None)
                else:
                    os.environ[k] = v
        child.close()
        self.job = None
        self.t_job = None

    def send(self, job):
        self.job = job
        self.t_job = time.time()
        self.parent.send(job)

    def close(self):
        try:
            self.parent.send(None)
        except Exception:
            pass
        self.proc.join(timeout=5)
        if self.proc.is_alive():
            self.proc.kill()


def _numba_cache_dir(mode):
    d = os.path.join(tempfile.gettempdir(), "vmc-numba-cache-%s-%d" % (mode, os.getuid()))
    os.makedirs(d, exist_ok=True)
    return d


def default_workers():
    n = int(os.environ.get("VERIF_WORKERS", "0")) or (os.cpu_count() or 4)
    return max(2, min(n, 16))


def run_check(mod, tier, seed, only=None, log=print):
    """Run every sub-check of a module; return (summary dict, list of violation records)."""
    modname = mod.__name__
    subs = mod.subchecks(tier, seed)
    if only:
        subs = [s for s in subs if s.name in only]
    ctx = mp.get_context("spawn")
    nworkers = default_workers()
    # allocate workers per mode proportional to the number of subs, at least 1 per mode used
    modes = sorted({s.mode for s in subs})
    alloc = getattr(mod, "WORKERS", None)
    if alloc is None:
        alloc = {}
        other = [m for m in modes if m != "I"]
        per_other = 2 if nworkers >= 8 else 1
        for m in other:
            alloc[m] = per_other
        if "I" in modes:
            alloc["I"] = max(1, nworkers - per_other * len(other))
        elif other:
            share = max(1, nworkers // len(other))
            for m in other:
                alloc[m] = share
    alloc = {m: alloc.get(m, 1) for m in modes}

    # job list per mode
    jobs = {m: [] for m in modes}
    for s in subs:
        nsh = s.shards or alloc[s.mode] * 3
        s._nshards = nsh
        for sh in range(nsh):
            jobs[s.mode].append(("shard", s.name, sh, nsh, ()))
    subs_by_name = {s.name: s for s in subs}
    aggs = {s.name: {"executed": 0, "nt": set(), "out": Counter(), "viol": {}, "samples": [],
                     "st": 0, "tr": 0, "rej": 0, "amb": 0, "t": 0.0, "crashes": 0} for s in subs}
    workers = []
    wid = 0
    extra_env = getattr(mod, "ENV", {})
    for m in modes:
        for _ in range(min(alloc[m], len(jobs[m]))):
            workers.append(_Worker(ctx, modname, tier, seed, m, wid, extra_env))
            wid += 1
    t0 = time.time()
    pending = {m: list(reversed(jobs[m])) for m in modes}
    active = []
    for w in workers:
        if pending[w.mode]:
            w.send(pending[w.mode].pop())
            active.append(w)
    fatal = []
    while active:
        ready = mp_wait([w.parent for w in active] + [w.proc.sentinel for w in active], timeout=5)
        for w in list(active):
            sub = subs_by_name[w.job[1]]
            msg = None
            if w.parent in ready or w.parent.poll():
                try:
                    msg = w.parent.recv()
                except (EOFError, OSError):
                    msg = None
            died = msg is None and not w.proc.is_alive()
            timed_out = (msg is None and sub.timeout_s and time.time() - w.t_job > sub.timeout_s)
            if msg is not None and msg[0] == "done":
                _merge(aggs[msg[1]], msg[3])
                if pending[w.mode]:
                    w.send(pending[w.mode].pop())
                else:
                    active.remove(w)
                    w.close()
            elif msg is not None and msg[0] == "fatal":
                fatal.append((w.job, msg[1]))
                active.remove(w)
                w.close()
            elif died or timed_out:
                # abnormal termination while executing case cur: that IS an observation.
                idx = w.cur.value
                code = w.proc.exitcode
                if timed_out:
                    w.proc.kill()
                    w.proc.join()
                _, name, sh, nsh, skip = w.job
                a = aggs[name]
                a["crashes"] += 1
                case = None
                if idx >= 0:
                    case = next(itertools.islice(sub.cases(), idx, None), None)
                sig = sub.crash_sig(case) if (case is not None and getattr(sub, "crash_sig", None)) \
                    else ("timeout" if timed_out else "abnormal-termination")
                slot = a["viol"].setdefault(sig, {"count": 0, "first": []})
                slot["count"] += 1
                if len(slot["first"]) < 3:
                    slot["first"].append({"index": idx, "case": case, "violation": viol(
                        sig, "worker process ended (exit code %s%s) while executing this case"
                        % (code, ", killed after timeout" if timed_out else ""))})
                active.remove(w)
                if idx >= 0:
                    a["executed"] += 1
                    if len(skip) < 25:
                        # the shard's partial aggregate died with the process: re-run the shard,
                        # skipping the cases already known to kill the process
                        pending[w.mode].append(("shard", name, sh, nsh, tuple(skip) + (idx,)))
                    else:
                        a["capped"] = a.get("capped", 0) + 1
                else:
                    fatal.append((w.job, "worker died outside a case (exit code %s)" % code))
                if pending[w.mode]:
                    nw = _Worker(ctx, modname, tier, seed, w.mode, w.wid, extra_env)
                    nw.send(pending[w.mode].pop())
                    active.append(nw)
    wall = time.time() - t0
    if fatal:
        for job, tb in fatal:
            log("HARNESS-FATAL in %s: %s" % (job, tb))
    return subs, aggs, wall, fatal


def _merge(a, b):
    a["executed"] += b["executed"]
    a["nt"] |= b["nt"]
    a["out"].update(b["out"])
    for k in ("st", "tr", "rej", "amb", "t"):
        a[k] += b[k]
    for s in b["samples"]:
        if len(a["samples"]) < 3:
            a["samples"].append(s)
    for sig, slot in b["viol"].items():
        t = a["viol"].setdefault(sig, {"count": 0, "first": []})
        t["count"] += slot["count"]
        t["first"] = sorted(t["first"] + slot["first"], key=lambda r: (r["index"] if r["index"] is not None else -1))[:3]


def run_one(mod, tier, seed, subname, case):
    """Replay of a single case without the explorer: fresh worker in the sub-check's mode."""
    subs = {s.name: s for s in mod.subchecks(tier, seed)}
    sub = subs[subname]
    ctx = mp.get_context("spawn")
    w = _Worker(ctx, mod.__name__, tier, seed, sub.mode, 0, getattr(mod, "ENV", {}))
    w.send(("one", subname, case))
    out = None
    while True:
        if w.parent.poll(1):
            try:
                out = w.parent.recv()
            except EOFError:
                out = None
            break
        if not w.proc.is_alive():
            break
    if out is None:
        code = w.proc.exitcode
        return res([viol("abnormal-termination", "worker exited with code %s" % code)])
    w.close()
    if out[0] == "fatal":
        return res([viol("harness-exception", out[1])])
    return out[2]
