"""known_findings.json: committed, never written at run time.

{"known": [{"property": "C01", "signature": "<sub>/<sig>", "what": "..."}],
 "fixed": [{"property": "C01", "commit": "...", "what": "..."}]}

A known entry suppresses exactly the violations whose full signature "<sub>/<sig>" equals (or, when
the entry ends in '*', starts with) its signature.  Fixed entries suppress nothing.
"""
import json
import os

from . import core


def load_known(prop):
    p = os.path.join(core.VERIF, "known_findings.json")
    if not os.path.exists(p):
        return []
    with open(p) as f:
        d = json.load(f)
    return [k for k in d.get("known", []) if k["property"] == prop]


def match_known(known, full_sig):
    for k in known:
        s = k["signature"]
        if s == full_sig or (s.endswith("*") and full_sig.startswith(s[:-1])):
            return k
    return None
