"""Finite input alphabets, simplest first."""
import itertools


def sigma(alphabet, maxlen, minlen=0):
    """All strings over alphabet with minlen <= length <= maxlen, shortest first."""
    out = []
    for n in range(minlen, maxlen + 1):
        for t in itertools.product(alphabet, repeat=n):
            out.append("".join(t))
    return out


def corpora(alphabet, maxlen, ndocs, minlen=0):
    """All ordered ndocs-tuples of strings."""
    s = sigma(alphabet, maxlen, minlen)
    return itertools.product(s, repeat=ndocs)


def compositions(total, parts):
    """All tuples of `parts` non-negative integers summing to total."""
    if parts == 1:
        yield (total,)
        return
    for i in range(total + 1):
        for rest in compositions(total - i, parts - 1):
            yield (i,) + rest


def product_dicts(**axes):
    keys = list(axes)
    for vals in itertools.product(*[axes[k] for k in keys]):
        yield dict(zip(keys, vals))
