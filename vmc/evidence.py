import json
import os

from . import core


def write_evidence(mod, prop, tier, seed, per_sub, wall, n_viol, n_known):
    level = mod.LEVEL
    executed = sum(p["executed"] for p in per_sub)
    nontriv = sum(p["distinct_nontrivial"] for p in per_sub)
    samples = []
    for p in per_sub:
        for s in p["samples"][:1]:
            samples.append({"sub": p["sub"], **s})
    cov = {
        "evaluations": executed,
        "distinct_nontrivial": nontriv,
        "rule": getattr(mod, "RULE", "") + " | per sub-check: " + "; ".join(
            "%s: %s" % (p["sub"], p["nontrivial_rule"]) for p in per_sub if p["nontrivial_rule"]),
        "samples": samples,
        "exhaustive": all(p["exhaustive"] for p in per_sub),
        "sub_checks": [{k: v for k, v in p.items() if k != "samples"} for p in per_sub],
        "known_findings_reported": n_known,
    }
    if level == "model_checking":
        cov["states"] = sum(p["states"] for p in per_sub)
        cov["transitions"] = sum(p["transitions"] for p in per_sub)
        cov["traces_validated_against_impl"] = sum(
            (p["transitions"] if p["kind"] == "compiled-traces" else p["executed"]) for p in per_sub if p["mode"] in ("N", "B", "H"))
        cov["explanation"] = getattr(mod, "MC_NOTE", "")
    ev = {"property_id": prop, "tier": tier, "seed": seed, "level": level, "coverage": cov,
          "assumptions": list(getattr(mod, "ASSUMPTIONS", [])), "wall_s": round(wall, 2),
          "violations": n_viol}
    d = os.path.join(core.VERIF, "evidence")
    os.makedirs(d, exist_ok=True)
    with open(os.path.join(d, "%s.json" % prop), "w") as f:
        json.dump(ev, f, indent=1, default=str)
